import BiotiteModel.Model.C06Containers
/-! Line-protocol driver for C06: one output line per input line.

Strings travel hex-encoded (two digits per character, `-` = empty string); lists are joined
with `,` (`_` = empty list); columns `key=v,v` joined with `;`; categories `name:cols` joined
with `/`; blocks `name@cats` joined with `|`. -/
namespace BiotiteModel.Driver.C06
open BiotiteModel BiotiteModel.C06 BiotiteModel.Proto

def hexDigit (n : Nat) : Char := if n < 10 then Char.ofNat (48 + n) else Char.ofNat (87 + n)

/-- strings travel as the hex digits of their UTF-8 bytes -/
def encStr (s : Str) : String :=
  if s.isEmpty then "-" else
  String.ofList ((String.ofList s).toUTF8.toList.flatMap (fun b => [hexDigit (b.toNat / 16), hexDigit (b.toNat % 16)]))

def hexVal (c : Char) : Option Nat :=
  if '0' ≤ c ∧ c ≤ '9' then some (c.toNat - 48)
  else if 'a' ≤ c ∧ c ≤ 'f' then some (c.toNat - 87) else none

def decBytes : List Char → Option (List UInt8)
  | [] => some []
  | a :: b :: rest => do
    let x ← hexVal a
    let y ← hexVal b
    let r ← decBytes rest
    some (UInt8.ofNat (16 * x + y) :: r)
  | _ => none

def decStr (s : String) : Option Str :=
  if s == "-" then some [] else
  match decBytes s.toList with
  | some bs => (String.fromUTF8? (ByteArray.mk bs.toArray)).map String.toList
  | none => none

def encList (xs : List Str) : String := if xs.isEmpty then "_" else joinWith "," (xs.map encStr)
def decList (s : String) : Option (List Str) := if s == "_" then some [] else (s.splitOn ",").mapM decStr

def decCol (s : String) : Option (Str × List Str) :=
  match s.splitOn "=" with
  | [k, vs] => do some ((← decStr k), (← decList vs))
  | _ => none

def decCols (s : String) : Option (List (Str × List Str)) :=
  if s == "_" then some [] else (s.splitOn ";").mapM decCol

def decCat (s : String) : Option (Str × List (Str × List Str)) :=
  match s.splitOn ":" with
  | [n, cs] => do some ((← decStr n), (← decCols cs))
  | _ => none

def decCats (s : String) : Option (List (Str × List (Str × List Str))) :=
  if s == "_" then some [] else (s.splitOn "/").mapM decCat

def decBlock (s : String) : Option (Str × List (Str × List (Str × List Str))) :=
  match s.splitOn "@" with
  | [n, cs] => do some ((← decStr n), (← decCats cs))
  | _ => none

def decBlocks (s : String) : Option (List (Str × List (Str × List (Str × List Str)))) :=
  if s == "_" then some [] else (s.splitOn "|").mapM decBlock

def showMask (vs : List Str) : String :=
  match inferMask vs with
  | none => "-"
  | some m => String.ofList (m.map (fun n => hexDigit n))

def showCols (cols : List (Str × List Str)) : String :=
  if cols.isEmpty then "_" else
  joinWith ";" (cols.map (fun kv => encStr kv.1 ++ "=" ++ encList kv.2 ++ "~" ++ showMask kv.2))

def showErr (e : Err) : String := "ERR:" ++ e.toString

def showCat (r : Except Err (Str × List (Str × List Str))) : String :=
  match r with
  | .ok (n, cols) => encStr n ++ ":" ++ showCols cols
  | .error _ => "!"

def showOptName (n : Option Str) : String := match n with | none => "~" | some s => encStr s

/-- serialise, then parse all the way down (file → blocks → categories). -/
def roundTrip (blocks : List (Str × List (Str × List (Str × List Str)))) : String :=
  match fileSerialize blocks with
  | .error e => showErr e
  | .ok text =>
    let bs := fileDeserialize text
    let showBlock (b : Str × Str) : String :=
      encStr b.1 ++ "@" ++
        match blockDeserialize b.2 with
        | .error _ => "!"
        | .ok cats =>
          if cats.isEmpty then "_" else
          joinWith "/" (cats.map (fun c => showOptName c.1 ++ ":" ++ showCat (categoryDeserialize c.2)))
    "ok " ++ (if bs.isEmpty then "_" else joinWith "|" (bs.map showBlock))

/-! ### containers -/

/-- element value: (number, encoding resolved).  A `BinaryCIFData` built in memory carries
`ByteArrayEncoding(type=None)` until it is serialised once, and `__eq__` compares encodings: a
fresh element is unequal to the same element read back (known finding
`C06/container/binary/eq-unserialised-encoding`); the flag models exactly that.  Text flavour: always `true`. -/
abbrev Val := Nat × Bool

structure CState where
  kind : String := ""
  store : Store String (Option Nat) Val := []
  rcBinary : Bool := false
  rc : RC String := ⟨[], none⟩
  colBinary : Bool := false
  col : Col := ⟨[], []⟩

def kindOf (s : String) : Option Kind :=
  match s with
  | "tfile" | "tblock" => some ⟨false, false⟩
  | "tcat" => some ⟨true, false⟩
  | "bfile" | "bblock" | "bcat" => some ⟨false, true⟩
  | _ => none

def isBinary (kind : String) : Bool := kind == "bfile" || kind == "bblock" || kind == "bcat"

def decEntryVal (kind : String) (s : String) : Option (Entry (Option Nat) Val) :=
  match s.toList with
  | ['B'] => some (.raw none)
  | 'P' :: d => (String.ofList d).toNat?.map (fun n => .parsed (n, !isBinary kind))
  | 'R' :: d => (String.ofList d).toNat?.map (fun n => .raw (some n))
  -- the same element in another text layout: indistinguishable for the model (that is the property)
  | 'Q' :: d => (String.ofList d).toNat?.map (fun n => .raw (some n))
  | _ => none

def decEntries (kind : String) (s : String) : Option (Store String (Option Nat) Val) :=
  if s == "_" then some [] else
  (s.splitOn ",").mapM (fun e => match e.splitOn "=" with
    | [k, v] => (decEntryVal kind v).map (fun x => (k, x))
    | _ => none)

def showOut (o : Out String Val) : String :=
  match o with
  | .unit => "ok"
  | .val v => s!"ok {v.1}"
  | .keys ks => "ok " ++ (if ks.isEmpty then "_" else joinWith "," ks)
  | .nat n => s!"ok {n}"
  | .bool b => if b then "ok True" else "ok False"
  | .err e => showErr e

def parseId (r : Option Nat) : Option Val := r.map (fun n => (n, true))

def isBad (e : Entry (Option Nat) Val) : Bool := match e with | .raw none => true | _ => false

def toRaw (e : Entry (Option Nat) Val) : Entry (Option Nat) Val :=
  match e with | .parsed v => .raw (some v.1) | r => r

/-- `BinaryCIFBlock` stores category `name` under `"_" + name`. -/
def encK (kind : String) (k : String) : String := if kind == "bblock" then "_" ++ k else k
/-- `key.removeprefix("_")` on iteration (only `BinaryCIFBlock`). -/
def decK (kind : String) (k : String) : String :=
  if kind == "bblock" then (if k.startsWith "_" then String.ofList (k.toList.drop 1) else k) else k

def encStore (kind : String) (st : Store String (Option Nat) Val) : Store String (Option Nat) Val :=
  st.map (fun e => (encK kind e.1, e.2))

def cstep (s : CState) (w : List String) : CState × String :=
  match kindOf s.kind, w with
  | _, ["cnew", k, es] =>
    match kindOf k, decEntries k es with
    | some _, some st => ({ kind := k, store := encStore k st }, "ok")
    | _, _ => (s, "bad-op")
  | some kind, ["cget", k] => let r := stepP (encK s.kind) (decK s.kind) kind parseId s.store (.get k); ({ s with store := r.1 }, showOut r.2)
  | some kind, ["cset", k, v] =>
    match v.toNat? with
    | some v => let r := stepP (encK s.kind) (decK s.kind) kind parseId s.store (.set k (v, !isBinary s.kind)); ({ s with store := r.1 }, showOut r.2)
    | none => (s, "bad-op")
  | some kind, ["csetraw", k, v] =>
    if s.kind == "tcat" then (s, "unmodelled") else
    match decEntryVal s.kind v with
    | some (.raw r) => let r := stepP (encK s.kind) (decK s.kind) kind parseId s.store (.setRaw k r); ({ s with store := r.1 }, showOut r.2)
    | _ => (s, "bad-op")
  | some kind, ["cdel", k] => let r := stepP (encK s.kind) (decK s.kind) kind parseId s.store (.del k); ({ s with store := r.1 }, showOut r.2)
  | some kind, ["chas", k] => let r := stepP (encK s.kind) (decK s.kind) kind parseId s.store (.has k); ({ s with store := r.1 }, showOut r.2)
  | some kind, ["citer"] => let r := stepP (encK s.kind) (decK s.kind) kind parseId s.store .iter; ({ s with store := r.1 }, showOut r.2)
  | some kind, ["clen"] => let r := stepP (encK s.kind) (decK s.kind) kind parseId s.store .len; ({ s with store := r.1 }, showOut r.2)
  | some _, ["ceq", es] =>
    match decEntries s.kind es with
    | some other =>
      let r := eqContainers parseId s.store (encStore s.kind other)
      ({ s with store := r.1 }, match r.2.2 with | .ok b => (if b then "ok True" else "ok False") | .error e => showErr e)
    | none => (s, "bad-op")
  | some _, ["creparse"] =>
    if s.kind == "tcat" then
      (s, if s.store.isEmpty then showErr serr else "ok")
    else if s.kind == "bcat" then
      if s.store.isEmpty || s.store.any (fun e => isBad e.2) then (s, showErr serr)
      else ({ s with store := s.store.map (fun e => (e.1, toRaw e.2)) }, "ok")
    else ({ s with store := s.store.map (fun e => (e.1, toRaw e.2)) }, "ok")
  | _, _ => (s, "bad-op")

def decLens (s : String) : Option (List (String × Nat)) :=
  if s == "_" then some [] else
  (s.splitOn ",").mapM (fun e => match e.splitOn "=" with
    | [k, v] => v.toNat?.map (fun n => (k, n))
    | _ => none)

def showRc (r : Except Err (Option Nat)) : String :=
  match r with
  | .ok none => "ok"
  | .ok (some n) => s!"ok {n}"
  | .error e => showErr e

def rcDo (s : CState) (op : RCOp String) : CState × String :=
  let r := rcStep s.rcBinary s.rc op
  ({ s with rc := r.1 }, showRc r.2)

/-- parse a file text all the way down (`fileParse` of the model) -/
def deepParse (text : Str) : Option (List (Str × List (Option Str × List (Str × List Str)))) :=
  match fileParse text with
  | .ok bs => some (bs.map (fun b => (b.1, b.2.map (fun c => (c.1, c.2.2)))))
  | .error _ => none

def eqAssoc {κ α : Type} [BEq κ] (eqv : α → α → Bool) (a b : List (κ × α)) : Bool :=
  sameKeySet (a.map (·.1)) (b.map (·.1)) &&
  a.all (fun kv => match lookup kv.1 b with | some v => eqv kv.2 v | none => false)

/-- `CIFFile.__eq__` as a comparison of plain mappings (File ⊃ Block ⊃ Category ⊃ column strings). -/
def deepEq (a b : List (Str × List (Option Str × List (Str × List Str)))) : Bool :=
  eqAssoc (eqAssoc (eqAssoc (fun (x y : List Str) => x == y))) a b

def step' (s : CState) (line : String) : CState × String :=
  match words line with
  | ["eqrows", flav, _level, sa, sb, va, vb] =>
    -- two one-column tables that may differ in their row count, compared at some level of the hierarchy:
    -- `==` is the comparison of the plain nested mappings, i.e. of the two value lists.  Binary flavour: an
    -- object built in memory never equals one read back (known finding eq-unserialised-encoding).
    match decList va, decList vb with
    | some a, some b =>
      -- "w" (built from a wider NumPy string array) is a fresh object like "f": the item size is not part of the table
      let norm (x : String) : String := if x == "w" then "f" else x
      let r := if flav == "b" && norm sa != norm sb then false else a == b
      (s, if r then "ok True" else "ok False")
    | _, _ => (s, "bad-op")
  | ["eqrows", flav, _level, sa, sb, va, vb, ma, mb] =>
    -- the same with masks ("-" = no mask): `__eq__` of the columns compares data and masks (`MCol.eq`)
    let decM (m : String) : Option (List Nat) := if m == "-" then none else some (m.toList.map (fun c => c.toNat - 48))
    match decList va, decList vb with
    | some a, some b =>
      let r := if flav == "b" && sa != sb then false else MCol.eq ⟨a, decM ma⟩ ⟨b, decM mb⟩
      (s, if r then "ok True" else "ok False")
    | _, _ => (s, "bad-op")
  | ["lazyget", t, b, c] =>
    let c? : Option (Option Str) := if c == "~" then some none else (decStr c).map some
    match decStr t, decStr b, c? with
    | some t, some b, some c =>
      (s, match lazyGet t b c with
          | .ok cat => "ok " ++ showCat (.ok cat)
          | .error e => showErr e)
    | _, _, _ => (s, "bad-op")
  | ["eqfiles", ta, tb] =>
    match decStr ta, decStr tb with
    | some ta, some tb =>
      match deepParse ta, deepParse tb with
      | some a, some b => (s, if deepEq a b then "ok True" else "ok False")
      | _, _ => (s, "ERR")
    | _, _ => (s, "bad-op")
  | ["colnew", k, vals, mask] =>
    match decList vals with
    | some vs => ({ s with colBinary := k == "b", col := ⟨vs, mask.toList.map (fun c => c.toNat - 48)⟩ }, "ok")
    | none => (s, "bad-op")
  | ["colarr", mv] =>
    let mv? : Option (Option Str) := if mv == "default" || mv == "str" then some none else (decStr mv).map some
    match mv? with
    | some m => let r := colStep s.col (.arr m); ({ s with col := r.1 }, "ok " ++ encList r.2)
    | none => (s, "bad-op")
  | ["coldata"] => let r := colStep s.col .data; ({ s with col := r.1 }, "ok " ++ encList r.2)
  | ["colplain"] => let r := colStep s.col .plain; ({ s with col := r.1 }, "ok " ++ encList r.2)
  | ["colser"] =>
    -- a category with the masked column `m` and an unmasked column `p` on the same data, written and read back
    let m := s.col.asArray none
    if s.colBinary then
      (s, "ok " ++ encStr ['m'] ++ "=" ++ encList m ++ "~" ++ String.ofList (s.col.mask.map hexDigit) ++ ";" ++
          encStr ['p'] ++ "=" ++ encList s.col.data ++ "~-")
    else
      match categorySerialize ['c'] [(['m'], m), (['p'], s.col.data)] with
      | .error e => (s, showErr e)
      | .ok t => (s, match categoryDeserialize t with | .ok c => "ok " ++ showCols c.2 | .error _ => "ERR")
  | ["rcnew", k, cols] =>
    match decLens cols with
    | some cs => ({ s with rcBinary := k == "b", rc := ⟨cs, none⟩ }, "ok")
    | none => (s, "bad-op")
  | ["rcset", k, n] => match n.toNat? with | some n => rcDo s (.set k n) | none => (s, "bad-op")
  | ["rcdel", k] => rcDo s (.del k)
  | ["rcser"] => rcDo s .ser
  | ["rccount"] => rcDo s .count
  | ["esc", v] =>
    match decStr v with
    | some v => (s, "ok " ++ encStr (escape v))
    | none => (s, "bad-op")
  | ["split", l] =>
    match decStr l with
    | some l => (s, match splitOneLine l with | .ok ts => "ok " ++ encList ts | .error e => showErr e)
    | none => (s, "bad-op")
  | ["sercat", n, cs] =>
    match decStr n, decCols cs with
    | some n, some cs => (s, match categorySerialize n cs with | .ok t => "ok " ++ encStr t | .error e => showErr e)
    | _, _ => (s, "bad-op")
  | ["parsecat", t] =>
    match decStr t with
    | some t => (s, match categoryDeserialize t with | .ok c => "ok " ++ showCat (.ok c) | .error _ => "ERR")
    | none => (s, "bad-op")
  | ["parseblock", t] =>
    match decStr t with
    | some t => (s, match blockDeserialize t with
        | .ok cats => "ok " ++ (if cats.isEmpty then "_" else joinWith "/" (cats.map (fun c => showOptName c.1 ++ ":" ++ encStr c.2)))
        | .error _ => "ERR")
    | none => (s, "bad-op")
  | ["parsefile", t] =>
    match decStr t with
    | some t =>
      let bs := fileDeserialize t
      (s, "ok " ++ (if bs.isEmpty then "_" else joinWith "|" (bs.map (fun b => encStr b.1 ++ "@" ++ encStr b.2))))
    | none => (s, "bad-op")
  | ["reuse", s1, s2] =>
    -- one file object written, edited in place into other content, written again: serialisation is a
    -- function of the content alone, so the model simply serialises both contents
    match decBlocks s1, decBlocks s2 with
    | some a, some b =>
      (s, match fileSerialize a, fileSerialize b with
          | .ok ta, .ok tb => "ok " ++ encStr ta ++ " " ++ encStr tb
          | .error e, _ => showErr e
          | _, .error e => showErr e)
    | _, _ => (s, "bad-op")
  | ["serfile", spec] =>
    match decBlocks spec with
    | some bs => (s, match fileSerialize bs with | .ok t => "ok " ++ encStr t | .error e => showErr e)
    | none => (s, "bad-op")
  | ["rt", spec] =>
    match decBlocks spec with
    | some bs => (s, roundTrip bs)
    | none => (s, "bad-op")
  | w => cstep s w

def main : IO Unit := loop ({} : CState) step'

end BiotiteModel.Driver.C06

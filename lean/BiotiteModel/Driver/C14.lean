import BiotiteModel.Model.C14
/-! Line-protocol driver for C14: one output line per input line.

All real numbers travel as integers `k` meaning `k / 2^S` (`S` given by `new`).

```
new S cs box sel coords      box: `-` | BOX | E/O/p | E/O/n  (BOX = Lx,Ly,Lz | 9 ints, rows = box vectors; E explicit box argument, O the AtomArray's own box, each `-` or BOX)   sel: `-` | bit string | `_`   coords: x,y,z,x,y,z,... | `_`
atoms mode shape qs rad      mode: idx|mask  shape: s|m  rad: s:K | m:K,K,...
cells mode shape qs rad      rad: s:C | m:C,C,...   (cell radii, plain integers)
adj thr
```
Answers: `ok` / `ok s <set>` / `ok m <set>;<set>;...` (sets sorted, `_` = empty, `-` = no rows) /
`ERR:<Exception>` / `unmodelled`. -/
namespace BiotiteModel.Driver.C14
open BiotiteModel BiotiteModel.C14 BiotiteModel.Proto

structure St where
  S : Nat := 0
  cl : Option CL := none
  /-- `some B`: the cell list was built with the general-box path (`mkG`) -/
  gbox : Option M3 := none

def q (S : Nat) (k : Int) : Rat := mkRat k (2 ^ S)

def toV3s (S : Nat) : List Int → Option (List V3)
  | [] => some []
  | a :: b :: c :: r => (toV3s S r).map (⟨q S a, q S b, q S c⟩ :: ·)
  | _ => none

def dedupSorted : List Nat → List Nat
  | a :: b :: r => if a = b then dedupSorted (b :: r) else a :: dedupSorted (b :: r)
  | l => l

def canon (l : List Nat) : List Nat := dedupSorted (l.mergeSort (· ≤ ·))

/-- The literal window scan for small windows (cross-checked against its set-level
characterisation), the characterisation alone for large ones. -/
def scChecked (c : CL) (p : V3) (cr : Int) : List (V3 × Nat) :=
  if (2 * cr + 1) ^ 3 * (c.coord.length : Int) ≤ 1500 then
    let a := c.scan p cr
    let b := c.scanFast p cr
    if canon (a.map (·.2)) = canon (b.map (·.2)) ∧ a.length = b.length then a
    else [(p, 999999999)]
  else c.scanFast p cr

def showSets (single : Bool) (rows : List (List Nat)) : String :=
  if single then
    match rows with
    | [r] => "ok s " ++ showNatsE (canon r)
    | _ => "bad-shape"
  else if rows.isEmpty then "ok m -"
  else "ok m " ++ joinWith ";" (rows.map fun r => showNatsE (canon r))

def maskToIdx (m : List Bool) : List Nat :=
  (m.zipIdx.filter (·.1)).map (·.2)

def showRes (c : CL) (mode : String) (single : Bool) (r : Option (Except Err (List (List Nat)))) : String :=
  match r with
  | none => "unmodelled"
  | some (.error e) => "ERR:" ++ e.toString
  | some (.ok rows) =>
    if mode == "mask" then showSets single (rows.map fun r => maskToIdx (c.asMask r))
    else showSets single rows

def parseRad (s : String) : Option (Rad Int) :=
  match s.splitOn ":" with
  | ["s", k] => k.toInt?.map .scalar
  | ["m", ks] => (parseInts ks).map .multi
  | _ => none

def parseSel (s : String) : Option (Option (List Bool)) :=
  if s == "-" then some none
  else if s == "_" then some (some [])
  else some (some (s.toList.map (· == '1')))

/-- a box as it travels in the protocol: 3 integers = axis-aligned orthorhombic lengths (model `mk`),
9 integers = full matrix, rows = box vectors (model `mkG`) -/
inductive Bx where
  | diag (b : V3) | full (B : M3)

def parseBx (S : Nat) (s : String) : Option (Option Bx) :=
  if s == "-" then some none else
  match parseInts s with
  | some [a, b, c] => some (some (.diag ⟨q S a, q S b, q S c⟩))
  | some [a, b, c, d, e, f, g, h, i] =>
    some (some (.full ⟨⟨q S a, q S b, q S c⟩, ⟨q S d, q S e, q S f⟩, ⟨q S g, q S h, q S i⟩⟩))
  | _ => none

/-- `-` | box: plain coordinates, periodic iff a box is given (explicit `box` argument).
`E/O/p|n`: AtomArray input with explicit `box` argument `E`, own box `O` (each `-` or a box) and the
`periodic` flag; `chooseBox` decides which one is in effect. -/
def parseBox (S : Nat) (s : String) : Option (Option (Except Err Bx)) :=
  match s.splitOn "/" with
  | [one] => (parseBx S one).map fun b => b.map .ok
  | [e, o, p] =>
    match parseBx S e, parseBx S o with
    | some e, some o => if p == "p" then some (chooseBox true e o) else if p == "n" then some (chooseBox false e o) else none
    | _, _ => none
  | _ => none

def step (st : St) (line : String) : St × String :=
  match words line with
  | ["new", S, cs, box, sel, coords] =>
    match S.toNat?, cs.toInt?, parseSel sel, parseInts coords with
    | some S, some cs, some sel, some ks =>
      match parseBox S box, toV3s S ks with
      | some box, some ps =>
        let (res, gb) : Option (Except Err CL) × Option M3 := match box with
          | none => (mk ps (q S cs) none sel, none)
          | some (.ok (.diag b)) =>
            if 0 < b.x ∧ 0 < b.y ∧ 0 < b.z then (mk ps (q S cs) (some b) sel, none)
            else    -- zero / negative lengths: the general path (mirrored box, or singular → LinAlgError)
              let B : M3 := ⟨⟨b.x, 0, 0⟩, ⟨0, b.y, 0⟩, ⟨0, 0, b.z⟩⟩
              (mkG ps (q S cs) B sel, some B)
          | some (.ok (.full B)) => (mkG ps (q S cs) B sel, some B)
          | some (.error e) =>     -- `_check_coord` (selection errors) comes before the box lookup
            (match selError ps sel with
             | some e' => some (.error e')
             | none => some (.error e), none)
        match res with
        | none => ({ S := S, cl := none }, "unmodelled")
        | some (.error e) => ({ S := S, cl := none }, "ERR:" ++ e.toString)
        | some (.ok c) => ({ S := S, cl := some c, gbox := gb }, "ok")
      | _, _ => (st, "bad-op")
    | _, _, _, _ => (st, "bad-op")
  | [op, mode, shape, qs, rad] =>
    match st.cl, parseInts qs, parseRad rad with
    | some c, some ks, some rad =>
      match toV3s st.S ks with
      | some ps =>
        let single := shape == "s"
        if single && !rad.okForSingle then (st, "ERR:ValueError")   -- "Cannot accept array of radii, if a single position is given"
        else if op == "atoms" then
          let rad' : Rad Rat := match rad with
            | .scalar k => .scalar (q st.S k)
            | .multi ks => .multi (ks.map (q st.S))
          match st.gbox with
          | some B => (st, showRes c mode single (c.atomsBatchGWith scChecked B ps rad'))
          | none => (st, showRes c mode single (c.atomsBatchWith scChecked ps rad'))
        else if op == "cells" then
          match st.gbox with
          | some B => (st, showRes c mode single (c.cellsBatchGWith scChecked B ps rad))
          | none => (st, showRes c mode single (c.cellsBatchWith scChecked ps rad))
        else (st, "bad-op")
      | none => (st, "bad-op")
    | none, _, _ => (st, "no-state")
    | _, _, _ => (st, "bad-op")
  | ["adj", thr] =>
    match st.cl, thr.toInt? with
    | some c, some k =>
      match (match st.gbox with
             | some B => c.adjacencyGWith scChecked B (q st.S k)
             | none => c.adjacencyWith scChecked (q st.S k)) with
      | none => (st, "unmodelled")
      | some (.error e) => (st, "ERR:" ++ e.toString)
      | some (.ok rows) => (st, showSets false rows)
    | none, _ => (st, "no-state")
    | _, _ => (st, "bad-op")
  | _ => (st, "bad-op")

def main : IO Unit := loop ({} : St) step

end BiotiteModel.Driver.C14

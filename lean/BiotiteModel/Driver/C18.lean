import BiotiteModel.Model.C18Lazy
/-!
Line-protocol driver for C18.  File lines inside one protocol line are separated by TAB
(the model only speaks about printable ASCII, so TAB never occurs inside a line).

  W <auto|V2000|V3000|other> <default BondType> <atoms> <bonds>      write_structure_to_ctab
        atoms = elem,charge,x,y,z;…   (x = [-]num[/den], exact value of the float32)   bonds = i,j,type;…
  R⇥line⇥line…                                                         read_structure_from_ctab
  K <number|-> <<name>|-> <regint|-> <(regext)|->                      Metadata.Key(...).serialize()
  KD⇥text                                                              Metadata.Key.deserialize
  MS⇥K n name ri re⇥Vline⇥Vline…⇥K …                                 Metadata(...).serialize()
  MD⇥line⇥…                                                           Metadata.deserialize
  SS⇥line⇥…                                                           SDFile.deserialize + SDRecord.deserialize
  SE⇥line⇥…⇥#OPS⇥R⇥old⇥new⇥D⇥name⇥H⇥name⇥field⇥value…   parsed SDFile, edit history, serialize()
  MF⇥l0⇥l1⇥l2⇥#⇥<ver dflt atoms bonds>⇥…                         MOLFile: header lines, then set_structure calls (errors kept), final lines
  SF⇥line⇥…                                                           SDFile.deserialize, every record: header, get_structure(), metadata
  HS⇥name⇥initials⇥program⇥time⇥dim⇥scaling⇥energy⇥registry⇥comments   Header.serialize
  HD⇥l0⇥l1⇥l2                                                         Header.deserialize
-/
namespace BiotiteModel.Driver.C18
open BiotiteModel BiotiteModel.C18 BiotiteModel.Proto

def str (l : Line) : String := String.ofList l

def printable (s : String) : Bool := s.toList.all fun c => 32 ≤ c.toNat && c.toNat ≤ 126

def showErr (e : Err) : String :=
  match e with
  | .other "unmodelled" => "unmodelled"
  | e => "ERR:" ++ e.toString

def tabJoin (ls : List String) : String := joinWith "\t" ls

/-! ### float32 canonicalisation of a decimal (driver only; not part of any theorem) -/

/-- Nearest float with a `p`-bit significand to `n/d > 0` (round half even, no subnormals):
`(m, e)` with value `m·2^e`. -/
def toFloat (p : Nat) (n d : Nat) : Nat × Int :=
  let l : Int := (n.log2 : Int) - (d.log2 : Int)
  let e0 : Int := l - (p : Int)
  let scaled (e : Int) : Nat × Nat := if e ≥ 0 then (n, d * 2 ^ e.toNat) else (n * 2 ^ (-e).toNat, d)
  let ab := scaled e0
  let e := if ab.1 ≥ ab.2 * 2 ^ p then e0 + 1 else e0
  let ab := scaled e
  let m := rne ab.1 ab.2
  if m = 2 ^ p then (2 ^ (p - 1), e + 1) else (m, e)

def asRat (me : Nat × Int) : Nat × Nat :=
  if me.2 ≥ 0 then (me.1 * 2 ^ me.2.toNat, 1) else (me.1, 2 ^ (-me.2).toNat)

/-- decimal → float64 → float32, printed as a reduced fraction. -/
def showF32 (d : DecV) : Option String :=
  if d.mant = 0 then some "0" else
  if d.frac > 30 || d.mant ≥ 10 ^ 30 then none else
  let r64 := asRat (toFloat 53 d.mant (10 ^ d.frac))
  let r32 := asRat (toFloat 24 r64.1 r64.2)
  let g := Nat.gcd r32.1 r32.2
  let num := r32.1 / g
  let den := r32.2 / g
  some ((if d.neg then "-" else "") ++ toString num ++ (if den = 1 then "" else "/" ++ toString den))

/-! ### parsing of the protocol -/

def parseQ (s : String) : Option Q :=
  let neg := s.startsWith "-"
  let body := if neg then (s.drop 1).toString else s
  match body.splitOn "/" with
  | [n] => n.toNat?.map fun n => ⟨neg, n, 1⟩
  | [n, d] => match n.toNat?, d.toNat? with
    | some n, some d => if d = 0 then none else some ⟨neg, n, d⟩
    | _, _ => none
  | _ => none

def parseAtom (s : String) : Option Atom :=
  match s.splitOn "," with
  | [e, c, x, y, z] => do
    let c ← c.toInt?
    let x ← parseQ x
    let y ← parseQ y
    let z ← parseQ z
    pure ⟨x, y, z, e.toList, c⟩
  | _ => none

def parseBond (s : String) : Option (Nat × Nat × Nat) :=
  match s.splitOn "," with
  | [i, j, t] => do pure ((← i.toNat?), (← j.toNat?), (← t.toNat?))
  | _ => none

def parseList {α : Type} (f : String → Option α) (s : String) : Option (List α) :=
  if s == "_" then some [] else (s.splitOn ";").mapM f

def parseVersion : String → Version
  | "auto" => .auto | "V2000" => .v2000 | "V3000" => .v3000 | _ => .unknown

def showAtomR (a : AtomR) : Option String := do
  let x ← showF32 a.x
  let y ← showF32 a.y
  let z ← showF32 a.z
  pure (str a.elem ++ "," ++ toString a.charge ++ "," ++ x ++ "," ++ y ++ "," ++ z)

def showMolR (m : MolR) : String :=
  match m.atoms.mapM showAtomR with
  | none => "unmodelled"
  | some as =>
    "ok " ++ joinWith ";" as ++ "|" ++ joinWith ";" (m.bonds.map fun b => s!"{b.1},{b.2.1},{b.2.2}")

def optNat (s : String) : Option (Option Nat) := if s == "-" then some none else s.toNat?.map some

def unwrap (o c : Char) (s : String) : Option (Option Line) :=
  if s == "-" then some none else
  match s.toList with
  | a :: r => if a == o then (stripClose c r).map some else none
  | [] => none

def parseKey (ws : List String) : Option Key :=
  match ws with
  | [n, nm, ri, re] => do
    pure ⟨(← optNat n), (← unwrap '<' '>' nm), (← optNat ri), (← unwrap '(' ')' re)⟩
  | _ => none

def showOptNat : Option Nat → String | none => "-" | some n => toString n

def showKey (k : Key) : String :=
  showOptNat k.number ++ " " ++ (match k.name with | none => "-" | some s => "<" ++ str s ++ ">") ++ " "
    ++ showOptNat k.regInt ++ " " ++ (match k.regExt with | none => "-" | some s => "(" ++ str s ++ ")")

def showMd (md : Metadata) : String :=
  tabJoin (md.flatMap fun kv => ("K " ++ showKey kv.1) :: kv.2.map fun l => "V" ++ str l)

/-- `K …`, `V…` fields → metadata built with `dict` semantics (as the harness builds it). -/
partial def parseMd : List String → Option Metadata
  | [] => some []
  | f :: fs =>
    if f.startsWith "K " then do
      let k ← parseKey (words (f.drop 2).toString)
      let vals := (fs.takeWhile (·.startsWith "V")).map fun s => (s.drop 1).toString.toList
      let rest ← parseMd (fs.dropWhile (·.startsWith "V"))
      pure ((k, vals) :: rest)
    else none

def parseTimeField (s : String) : Option (Option (Nat × Nat × Nat × Nat × Nat)) :=
  if s == "-" then some none else
  match (s.splitOn ",").mapM String.toNat? with
  | some [a, b, c, d, e] => some (some (a, b, c, d, e))
  | _ => none

def showTime : Option (Nat × Nat × Nat × Nat × Nat) → String
  | none => "-"
  | some (a, b, c, d, e) => s!"{a},{b},{c},{d},{e}"

def setHeaderField (field : String) (v : Line) (h : Header) : Option Header :=
  match field with
  | "comments" => some { h with comments := v }
  | "program" => some { h with program := v }
  | "initials" => some { h with initials := v }
  | "energy" => some { h with energy := v }
  | "registry_number" => some { h with registry := v }
  | "dimensions" => some { h with dimensions := v }
  | "scaling_factors" => some { h with scaling := v }
  | _ => none

inductive Cmd where
  | edit (op : EditOp)
  /-- `SDFile({new: file[old], …})`: a new file built by the constructor from records of the current one -/
  | rebuild (pairs : List (Line × Line))

/-- `R old new`, `D name`, `H name field value`, `N n new old new old …` (one protocol field each) -/
partial def parseEdits : List String → Option (List Cmd)
  | [] => some []
  | "R" :: o :: n :: rest => (parseEdits rest).map fun ops => .edit (.rename o.toList n.toList) :: ops
  | "D" :: k :: rest => (parseEdits rest).map fun ops => .edit (.del k.toList) :: ops
  | "H" :: k :: fld :: v :: rest =>
    if (setHeaderField fld v.toList ⟨[], [], [], none, [], [], [], [], []⟩).isNone then none else
    (parseEdits rest).map fun ops => .edit (.editHeader k.toList (fun h => (setHeaderField fld v.toList h).getD h)) :: ops
  | "N" :: n :: rest =>
    match n.toNat? with
    | none => none
    | some n =>
      let fs := rest.take (2 * n)
      if fs.length != 2 * n then none else
      let rec pairs : List String → List (Line × Line)
        | a :: b :: r => (a.toList, b.toList) :: pairs r
        | _ => []
      (parseEdits (rest.drop (2 * n))).map fun ops => .rebuild (pairs fs) :: ops
  | _ => none

/-- run the commands; the first failing one ends the history with its error -/
def runCmds : LFile → List Cmd → Except Err LFile
  | f, [] => .ok f
  | f, .edit op :: rest =>
    match lazyStep f op with
    | (f', .unit) => runCmds f' rest
    | (_, .err e) => .error e
  | f, .rebuild pairs :: rest =>
    -- `file[old]` for every item first (KeyError), then the constructor adopts them one by one
    let rec fetch : LFile → List (Line × Line) → Except Err (List (Line × LRec))
      | _, [] => .ok []
      | f, (new, old) :: ps =>
        match getRec f old with
        | none => .error .keyError
        | some (f', r) => (fetch f' ps).map fun xs => (new, r) :: xs
    match fetch f pairs with
    | .error e => .error e
    | .ok items =>
      let g := sdfileOfDict items
      match g.2.find? (· != .unit) with
      | some (.err e) => .error e
      | _ => runCmds g.1 rest

def step (_ : Unit) (line : String) : Unit × String :=
  let fields := line.splitOn "\t"
  let out : String :=
    if !(fields.all printable) then "unmodelled" else
    match fields with
    | [] => "bad-op"
    | "R" :: ls =>
      (match readCtab (ls.map String.toList) with
       | .ok m => showMolR m
       | .error e => showErr e)
    | ["KD", t] =>
      (match Key.deserialize t.toList with
       | .ok k => "ok " ++ showKey k
       | .error e => showErr e)
    | "MS" :: fs =>
      (match parseMd fs with
       | some md =>
         -- the harness builds the mapping entry by entry: dict semantics
         let md : Metadata := md.foldl (fun d kv => dictSet kv.1 kv.2 d) []
         if md.all (fun kv => kv.1.valid && valueOk kv.2) then "ok " ++ tabJoin ((Metadata.serialize md).map str) else "ERR:ValueError"
       | none => "bad-op")
    | "MD" :: ls =>
      (match Metadata.deserialize (ls.map String.toList) with
       | .ok md => "ok " ++ showMd md
       | .error e => showErr e)
    | "SS" :: ls =>
      (match splitRecords (ls.map String.toList) with
       | .ok recs =>
         "ok " ++ tabJoin (recs.flatMap fun r =>
           let p := recordParts r.2
           ("N" ++ str r.1) :: (p.1.map fun l => "H" ++ str l) ++ (p.2.1.map fun l => "C" ++ str l)
             ++ (p.2.2.map fun l => "M" ++ str l))
       | .error e => showErr e)
    | "SE" :: rest =>
      let ls := rest.takeWhile (· != "#OPS")
      (match parseEdits ((rest.dropWhile (· != "#OPS")).drop 1), splitRecords (ls.map String.toList) with
       | some cmds, .ok recs =>
         (match runCmds (lazyOfRecords recs) cmds with
          | .error e => showErr e
          | .ok f => match LFile.lines f with
            | .ok out => "ok " ++ tabJoin (out.map str)
            | .error e => showErr e)
       | none, _ => "bad-op"
       | _, .error e => showErr e)
    | "MF" :: l0 :: l1 :: l2 :: "#" :: specs =>
      let parsed := specs.mapM fun sp =>
        match words sp with
        | [v, d, as, bs] =>
          (match d.toNat?, parseList parseAtom as, parseList parseBond bs with
           | some d, some as, some bs => some ((⟨as, bs⟩ : Mol), d, parseVersion v)
           | _, _, _ => none)
        | _ => none
      (match parsed with
       | none => "bad-op"
       | some calls =>
         let r := calls.foldl (fun (st : List Line × List String) c =>
           let x := molSetStructure st.1 c.1 c.2.1 c.2.2
           (x.1, st.2 ++ [match x.2 with | none => "-" | some e => e.toString])) ([l0.toList, l1.toList, l2.toList], [])
         "ok " ++ joinWith ";" r.2 ++ "\t" ++ tabJoin (r.1.map str))
    | "SF" :: ls =>
      (match sdfDeserialize (ls.map String.toList) with
       | .ok recs =>
         let parts := recs.map fun nr =>
           let h := nr.2.header
           (showMolR nr.2.mol, ("N" ++ str nr.1) :: ([str h.molName, str h.initials, str h.program, showTime h.time,
               str h.dimensions, str h.scaling, str h.energy, str h.registry, str h.comments].map fun f => "h" ++ f))
         if parts.any (fun p => p.1 == "unmodelled") then "unmodelled" else
         "ok " ++ tabJoin ((recs.zip parts).flatMap fun rp =>
           rp.2.2 ++ ["A" ++ (rp.2.1.drop 3).toString] ++
             (rp.1.2.md.flatMap fun kv => ("K " ++ showKey kv.1) :: kv.2.map fun l => "V" ++ str l))
       | .error e => showErr e)
    | ["HS", nm, ini, prog, t, dim, sc, en, reg, com] =>
      (match parseTimeField t with
       | some t =>
         (match Header.serialize ⟨nm.toList, ini.toList, prog.toList, t, dim.toList, sc.toList, en.toList, reg.toList, com.toList⟩ with
          | .ok ls => "ok " ++ tabJoin (ls.map str)
          | .error e => showErr e)
       | none => "bad-op")
    | "HD" :: ls =>
      (match Header.deserialize (ls.map String.toList) with
       | .ok h => "ok " ++ tabJoin [str h.molName, str h.initials, str h.program, showTime h.time, str h.dimensions,
                                    str h.scaling, str h.energy, str h.registry, str h.comments]
       | .error e => showErr e)
    | [one] =>
      (match words one with
       | ["W", v, d, as, bs] =>
         (match d.toNat?, parseList parseAtom as, parseList parseBond bs with
          | some d, some as, some bs =>
            (match writeCtab ⟨as, bs⟩ d (parseVersion v) with
             | .ok ls => "ok " ++ tabJoin (ls.map str)
             | .error e => showErr e)
          | _, _, _ => "bad-op")
       | "K" :: ws =>
         (match parseKey ws with
          | some k => if k.valid then "ok " ++ str k.serialize else "ERR:ValueError"
          | none => "bad-op")
       | ["R"] => (match readCtab [] with | .ok m => showMolR m | .error e => showErr e)
       | _ => "bad-op")
    | _ => "bad-op"
  ((), out)

def main : IO Unit := loop () step

end BiotiteModel.Driver.C18

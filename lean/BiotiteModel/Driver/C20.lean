import BiotiteModel.Model.C20
/-! Line-protocol driver for C20: one output line per input line (`<result> | <observation>`). -/
namespace BiotiteModel.Driver.C20
open BiotiteModel BiotiteModel.C20 BiotiteModel.Proto

def wrapperOf : String → Option Wrapper
  | "base" => some .base | "local" => some .localapp | "clustalo" => some .clustalo
  | "muscle3" => some .muscle3 | "muscle5" => some .muscle5 | "mafft" => some .mafft | _ => none

def toolOf : String → Option Tool
  | "ok" => some .ok | "reorder" => some .reorder | "garbage_empty" => some .garbageEmpty
  | "garbage_ragged" => some .garbageRagged | "garbage_missing" => some .garbageMissing
  | "garbage_length" => some .garbageLength
  | "garbage_tree" => some .garbageTree | "exit3" => some .exit3 | "hang" => some .hang
  | "sigkill" => some .sigkill | "hang_ignore_term" => some .hangIgnoreTerm
  | "missing" => some .missing | "isdir" => some .isdir | "nulbyte" => some .nulbyte | _ => none

def seqtypeOf : String → Option String
  | "prot" => some "protein" | "nuc" => some "nucleotide" | "generic" => some "protein" | _ => none

def showObs (s : St) : String :=
  s!"st={s.state.name} cwd={if s.cwdChanged then "changed" else "same"} files={s.files} child={s.child.name} cl={s.cleanups}"

def noObs : String := "st=NONE cwd=same files=0 child=none cl=0"

def showRes : Res → String
  | .ok "" => "ok"
  | .ok v => "ok " ++ v
  | .err e => "ERR:" ++ e.toString
  | .diverges => "unmodelled"
  | .noMethod => "ERR:AttributeError"

def callOf : List String → Option Call
  | ["start"] => some .start
  | ["join", "-"] => some (.join .none)
  | ["join", "t"] => some (.join .pos)
  | ["join", "0"] => some (.join .zero)
  | ["join", "0.0"] => some (.join .zero)
  | ["cancel"] => some .cancel
  | ["state"] => some .getState
  | ["tick"] => some .tick
  | ["call", m] => some (.method m)
  | _ => none

/-- Driver state: `none` before `new`, `some none` when construction failed, `some (some s)` otherwise. -/
def step (st : Option (Option St)) (line : String) : Option (Option St) × String :=
  match words line with
  | ["new", w, t, n, k] =>
    match wrapperOf w, toolOf t, n.toNat?, seqtypeOf k with
    | some w, some t, some n, some k =>
      -- MuscleApp / Muscle5App call get_version(bin_path) before anything else: a missing binary fails construction
      if (w = .muscle3 ∨ w = .muscle5) ∧ launchFails t then (some none, "ERR:" ++ (errLaunch t).toString ++ " | " ++ noObs)
      else
        let s := init w t n k
        (some (some s), "ok | " ++ showObs s)
    | _, _, _, _ => (st, "bad-op")
  | ws =>
    match st with
    | some (some s) =>
      match callOf ws with
      | some c =>
        let (s', r) := BiotiteModel.C20.step s c
        (some (some s'), showRes r ++ " | " ++ showObs s')
      | none => (st, "bad-op")
    | some none => (st, "no-app")
    | none => (st, "bad-op")

def main : IO Unit := loop none step

end BiotiteModel.Driver.C20

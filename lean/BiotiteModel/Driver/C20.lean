import BiotiteModel.Model.C20
import BiotiteModel.Model.C20Web
/-! Line-protocol driver for C20: one output line per input line (`<result> | <observation>`). -/
namespace BiotiteModel.Driver.C20
open BiotiteModel BiotiteModel.C20 BiotiteModel.Proto

def wrapperOf : String → Option Wrapper
  | "base" => some .base | "local" => some .localapp | "clustalo" => some .clustalo
  | "muscle3" => some .muscle3 | "muscle5" => some .muscle5 | "mafft" => some .mafft | "tantan" => some .tantan | _ => none

def toolOf : String → Option Tool
  | "ok" => some .ok | "reorder" => some .reorder | "garbage_empty" => some .garbageEmpty
  | "garbage_ragged" => some .garbageRagged | "garbage_missing" => some .garbageMissing
  | "garbage_length" => some .garbageLength | "garbage_swap" => some .garbageSwap | "garbage_short" => some .garbageShort
  | "dup_records" => some .dupRecords | "garbage_extra" => some .garbageExtra | "garbage_header" => some .garbageHeader | "bigout" => some .bigout
  | "garbage_tree" => some .garbageTree | "exit3" => some .exit3 | "hang" => some .hang
  | "sigkill" => some .sigkill | "hang_ignore_term" => some .hangIgnoreTerm
  | "missing" => some .missing | "isdir" => some .isdir | "nulbyte" => some .nulbyte | _ => none

/-- `prot`, `nuc`, `generic` (custom alphabet of 3 symbols), `generic<K>` (of K symbols): (seqtype reported, alphabet size if custom). -/
def seqkindOf (s : String) : Option (String × Option Nat) :=
  if s = "prot" ∨ s = "protempty" ∨ s = "protlong" ∨ s = "protmat" then some ("protein", none)   -- (one empty / very long / + matrix)
  else if s = "nuc" then some ("nucleotide", none)
  else if s = "generic" then some ("protein", some 3)
  else if s.startsWith "generic" then (s.drop 7).toNat?.map fun k => ("protein", some k)
  else none

/-- What `__init__` raises, if anything: MUSCLE asks the binary for its version first (launch errors); exotic sequence
types need a wrapper with custom protein matrices (MUSCLE 3, MAFFT) and an alphabet no larger than the amino-acid one. -/
def constructErr (w : Wrapper) (t : Tool) (n : Nat) (custom : Option Nat) : Option Err :=
  if (w = .muscle3 ∨ w = .muscle5) ∧ launchFails t then some (errLaunch t)
  else if w.isMsa ∧ n < 2 then some .valueError        -- "At least two sequences are required" comes first in MSAApp.__init__
  else match custom with
    | none => none
    | some k =>
      if w = .clustalo ∨ w = .muscle5 then some .typeError
      else if w = .muscle3 ∨ w = .mafft then (match mapSequence k [] with | .error e => some e | .ok _ => none)
      else none

def showObs (s : St) : String :=
  s!"st={s.state.name} cwd={if s.cwdChanged then "changed" else "same"} files={s.files} child={s.child.name} cl={s.cleanups}"

def noObs : String := "st=NONE cwd=same files=0 child=none cl=0"

def showRes : Res → String
  | .ok "" => "ok"
  | .ok v => "ok " ++ v
  | .err e => "ERR:" ++ e.toString
  | .diverges => "unmodelled"
  | .noMethod => "ERR:AttributeError"

def callOf : List String → Option Call
  | ["start"] => some .start
  | ["join", "-"] => some (.join .none)
  | ["join", "t"] => some (.join .pos)
  | ["join", "5"] => some (.join .pos)          -- a generous positive timeout (5 s)
  | ["join", "-1"] => some (.join .zero)        -- a negative timeout has expired before it starts: like 0
  | ["join", "inf"] => some (.join .inf)
  | ["chdir"] => some .chdir
  | ["callbad", m] => some (.methodBad m)
  | ["setgap", a] => a.toInt?.map fun a => .setGap a none
  | ["setgap", a, b] => match a.toInt?, b.toInt? with
    | some a, some b => some (.setGap a (some b))
    | _, _ => none
  | ["join", "0"] => some (.join .zero)
  | ["join", "0.0"] => some (.join .zero)
  | ["cancel"] => some .cancel
  | ["state"] => some .getState
  | ["tick"] => some .tick
  | ["call", m] => some (.method m)
  | _ => none

/-- Driver state. -/
inductive DSt where
  | fresh                  -- before `new`
  | failed                 -- construction failed
  | app (s : St)           -- a process-backed wrapper (or the Application stub)
  | web (w : Web.Web)      -- BlastWebApp with scripted clock and server

def showWeb (w : Web.Web) : String :=
  s!"st={w.state.name} now={w.now} lc={w.lastContact} lr={w.lastRequest} k={w.k} sent={w.sent} cl={w.cleanups}"

def webCallOf : List String → Option Web.Call
  | ["start"] => some .start
  | ["state"] => some .getState
  | ["cancel"] => some .cancel
  | ["join", "-"] => some (.join none)
  | ["join", n] => n.toNat?.map fun t => .join (some (t : Int))
  | ["clock", n] => n.toNat?.map .clock
  | ["contact"] => some .contact
  | ["request"] => some .request
  | ["violate"] => some .violate
  | ["call", m] => some (.method m)
  | _ => none

def step (st : DSt) (line : String) : DSt × String :=
  match words line with
  | ["new", w, t, n, k] =>
    match wrapperOf w, toolOf t, n.toNat?, seqkindOf k with
    | some w, some t, some n, some (seqtype, custom) =>
      match constructErr w t n custom with
      | some e => (.failed, "ERR:" ++ e.toString ++ " | " ++ noObs)
      | none =>
        let s := init w t n seqtype (k == "protmat")
        (.app s, "ok | " ++ showObs s)
    | _, _, _, _ => (st, "bad-op")
  | ["mapseq", k, codes] =>
    match k.toNat?, parseNats codes with
    | some k, some codes =>
      match mapSequence k codes with
      | .ok ls => (st, "ok ProteinSequence:" ++ (if ls.isEmpty then "_" else String.ofList ls))
      | .error e => (st, "ERR:" ++ e.toString)
    | _, _ => (st, "bad-op")
  | ["newweb", obey, k, put] =>
    match (if obey = "obey" then some true else if obey = "free" then some false else none), k.toNat?,
          (if put = "ok" then some false else if put = "toolarge" then some true else none) with
    | some obey, some k, some tl =>
      let w : Web.Web := { obey := obey, k := k, tooLarge := tl }
      (.web w, "ok | " ++ showWeb w)
    | _, _, _ => (st, "bad-op")
  | ws =>
    match st with
    | .app s =>
      match callOf ws with
      | some c =>
        let (s', r) := BiotiteModel.C20.step s c
        (.app s', showRes r ++ " | " ++ showObs s')
      | none => (st, "bad-op")
    | .web w =>
      match webCallOf ws with
      | some c =>
        let (w', r) := Web.step w c
        (.web w', showRes r ++ " | " ++ showWeb w')
      | none => (st, "bad-op")
    | .failed => (st, "no-app")
    | .fresh => (st, "bad-op")

def main : IO Unit := loop DSt.fresh step

end BiotiteModel.Driver.C20

import BiotiteModel.Model.C07
/-! Line-protocol driver for C07 (see harness/props/c07.py for the op grammar). -/
namespace BiotiteModel.Driver.C07
open BiotiteModel BiotiteModel.C07 BiotiteModel.Proto

structure St where
  atoms : List AtomN := []
  models : List (List CoordN) := []
  bonds : List (Nat × Nat) := []
  lines : List (List Char) := []
  cell : Option Cell := none

def hexVal (c : Char) : Option Nat :=
  if '0' ≤ c && c ≤ '9' then some (c.toNat - 48)
  else if 'a' ≤ c && c ≤ 'f' then some (c.toNat - 87) else none

/-- `x414243` → "ABC" -/
def unhex (s : String) : Option (List Char) :=
  match s.toList with
  | 'x' :: r =>
    let rec go : List Char → Option (List Char)
      | [] => some []
      | a :: b :: t => do
        let h ← hexVal a; let l ← hexVal b; let rest ← go t
        pure (Char.ofNat (h * 16 + l) :: rest)
      | _ => none
    go r
  | _ => none

/-- `+5p3` → 5/2³, `-0p0` → −0.0 -/
def parseFx (s : String) : Option Fx :=
  match s.toList with
  | sg :: r =>
    if sg != '+' && sg != '-' then none else
    match (String.ofList r).splitOn "p" with
    | [m, e] => do
      let m ← m.toNat?; let e ← e.toNat?
      pure { neg := sg == '-', m := m, e := e }
    | _ => none
  | _ => none

/-- a possibly non-finite float: `nan`, `+inf`, `-inf` or `[+-]m p e` -/
def parseNum (s : String) : Option Num :=
  if s == "nan" then some .nan else if s == "+inf" then some (.inf false) else if s == "-inf" then some (.inf true)
  else (parseFx s).map .fin

def parseBool (s : String) : Option Bool := if s == "1" then some true else if s == "0" then some false else none

def parseCoords (s : String) : Option (List CoordN) :=
  if s == "_" then some [] else
  (s.splitOn ";").mapM fun t =>
    match t.splitOn "," with
    | [x, y, z] => do let x ← parseNum x; let y ← parseNum y; let z ← parseNum z; pure (x, y, z)
    | _ => none

def str (l : List Char) : String := String.ofList l

def showErr (e : Err) : String := "ERR:" ++ e.toString

def showAtom (a : AtomRead) : String :=
  joinWith "," [if a.hetero then "1" else "0", str a.chain, toString a.resId, str a.insCode, str a.resName,
                str a.name, str a.element, toString a.atomId, toString a.occ, toString a.bf, toString a.charge]

def showRead (r : FileRead) : String :=
  let n := r.atoms.length
  s!"ok M={r.models.length} N={n} A:" ++ joinWith ";" (r.atoms.map showAtom) ++ " C:" ++
  joinWith "|" (r.models.map fun m => joinWith ";" (m.map fun c => s!"{c.1},{c.2.1},{c.2.2}")) ++ " B:" ++
  joinWith "," (r.bonds.map fun b => s!"{b.1}-{b.2}")

def showCell : Option (Option CellRead) → Option String
  | none => none
  | some none => some " X:-"
  | some (some u) => some s!" X:{u.a},{u.b},{u.c},{u.alpha},{u.beta},{u.gamma}"

/-- read result followed by the cell; an error of the atoms part wins, an unmodelled cell makes all unmodelled -/
def withCell (r : String) (lines : List (List Char)) : String :=
  if r.startsWith "ok" then (match showCell (readCell lines) with | some x => r ++ x | none => "unmodelled") else r

def showR {α : Type} (f : α → String) : R α → String
  | none => "unmodelled"
  | some (.error e) => showErr e
  | some (.ok v) => f v

def step (st : St) (line : String) : St × String :=
  match words line with
  | ["h36enc", n, w] =>
    match n.toInt?, w.toNat? with
    | some n, some w =>
      (st, match encodeH36 n w with | .ok s => "ok " ++ str s | .error e => showErr e)
    | _, _ => (st, "bad-op")
  | ["h36dec", s] =>
    match unhex s with
    | some s =>
      if s.any (fun c => c.toNat ≥ 128) then (st, "unmodelled") else
      (st, match decodeH36 s with | .ok v => s!"ok {v}" | .error e => showErr e)
    | none => (st, "bad-op")
  | ["atom", het, id, name, res, chain, resid, ins, el, occ, bf, q] =>
    match parseBool het, id.toInt?, unhex name, unhex res, unhex chain, resid.toInt?, unhex ins, unhex el,
          parseNum occ, parseNum bf, q.toInt? with
    | some het, some id, some name, some res, some chain, some resid, some ins, some el, some occ, some bf, some q =>
      ({ st with atoms := st.atoms ++ [{ hetero := het, atomId := id, name := name, resName := res, chain := chain,
                                         resId := resid, insCode := ins, element := el, occ := occ, bf := bf,
                                         charge := q }] }, "ok")
    | _, _, _, _, _, _, _, _, _, _, _ => (st, "bad-op")
  | ["model", cs] =>
    match parseCoords cs with
    | some cs => ({ st with models := st.models ++ [cs] }, "ok")
    | none => (st, "bad-op")
  | ["bond", i, j] =>
    match i.toNat?, j.toNat? with
    | some i, some j => ({ st with bonds := st.bonds ++ [(i, j)] }, "ok")
    | _, _ => (st, "bad-op")
  | ["write", h36, hasId, hasB, hasOcc, hasQ, hasBonds] =>
    match parseBool h36, parseBool hasId, parseBool hasB, parseBool hasOcc, parseBool hasQ, parseBool hasBonds with
    | some h36, some hasId, some hasB, some hasOcc, some hasQ, some hasBonds =>
      let fl : Flags := { h36 := h36, hasId := hasId, hasB := hasB, hasOcc := hasOcc, hasQ := hasQ, hasBonds := hasBonds }
      match writePdbN fl st.cell { atoms := st.atoms, models := st.models, bonds := st.bonds } with
      | .ok ls => ({ st with lines := ls }, s!"ok {ls.length} |" ++ joinWith "|" (ls.map str) ++ "|")
      | .error e => ({ st with lines := [] }, showErr e)
    | _, _, _, _, _, _ => (st, "bad-op")
  | "cell" :: a :: b :: c :: al :: be :: ga :: _ =>
    match parseFx a, parseFx b, parseFx c, parseFx al, parseFx be, parseFx ga with
    | some a, some b, some c, some al, some be, some ga =>
      ({ st with cell := some { a := a, b := b, c := c, alpha := al, beta := be, gamma := ga } }, "ok")
    | _, _, _, _, _, _ => (st, "bad-op")
  | ["rawline", s] =>
    match unhex s with
    | some s => ({ st with lines := st.lines ++ [s] }, "ok")
    | none => (st, "bad-op")
  | ["read", b] =>
    match parseBool b with
    | some b => (st, if st.lines.isEmpty then "no-file" else withCell (showR showRead (readPdb b st.lines)) st.lines)
    | none => (st, "bad-op")
  | ["readalt", mode, b] =>
    let m? : Option AltMode := if mode == "first" then some .first else if mode == "occupancy" then some .occupancy
      else if mode == "all" then some .all else none
    match m?, parseBool b with
    | some m, some b =>
      (st, if st.lines.isEmpty then "no-file" else
        withCell (showR (fun r => showRead r.1 ++ (if m == .all then " L:" ++ String.ofList (r.2.map fun c => if c == ' ' then '_' else c) else ""))
          (readPdbAlt m b st.lines)) st.lines)
    | _, _ => (st, "bad-op")
  | ["readmodel", k, b] =>
    match k.toInt?, parseBool b with
    | some k, some b => (st, if st.lines.isEmpty then "no-file" else withCell (showR showRead (readModel k b st.lines)) st.lines)
    | _, _ => (st, "bad-op")
  | _ => (st, "bad-op")

def main : IO Unit := loop ({} : St) step

end BiotiteModel.Driver.C07

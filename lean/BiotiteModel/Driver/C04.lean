import BiotiteModel.Model.C04
/-! Line-protocol driver for C04 (see `harness/props/c04.py` for the line formats). -/
namespace BiotiteModel.Driver.C04
open BiotiteModel BiotiteModel.C04 BiotiteModel.Proto

def dec (s : String) : String := if s == "%e" then "" else s
def enc (s : String) : String := if s == "" then "%e" else s

def splitE (sep : String) (s : String) : List String :=
  if s == "_" || s == "-" then [] else s.splitOn sep

structure St where
  ccd : List (String × LinkClass × List ((String × String) × Nat)) := []
  atoms : List Atom := []
  hasCharge : Bool := false
  hasAtomId : Bool := false
  coords : List (List Tok) := []
  box : Option Tok := none
  bonds : Option (List Bond) := none
  block : Block := ⟨[], none, none, none⟩
  hasBlock : Bool := false

def St.ccdOf (s : St) : Ccd :=
  { link := fun n => match s.ccd.lookup n with | some (c, _) => c | none => .other
    bonds := fun n => match s.ccd.lookup n with | some (_, b) => b | none => [] }

def St.structure (s : St) : Structure := ⟨s.atoms, s.hasCharge, s.hasAtomId, s.coords, s.box, s.bonds⟩

def parseMask : String → Option Mask
  | "p" => some .present | "i" => some .inapplicable | "m" => some .missing | _ => none
def showMask : Mask → String
  | .present => "p" | .inapplicable => "i" | .missing => "m"

def parseCell (s : String) : Option Cell :=
  match s.splitOn "/" with
  | [v, m] => (parseMask m).map fun m => ⟨dec v, m⟩
  | _ => none
def showCell (c : Cell) : String := enc c.val ++ "/" ++ showMask c.mask

def parseBond (s : String) : Option Bond :=
  match s.splitOn "," with
  | [i, j, t] => do pure ⟨← i.toNat?, ← j.toNat?, ← t.toNat?⟩
  | _ => none

def showBond (b : Bond) : String := s!"{b.i},{b.j},{b.t}"
def showBonds (bs : List Bond) : String := if bs.isEmpty then "_" else joinWith ";" (bs.map showBond)

def bondLe (a b : Bond) : Bool := a.i < b.i || (a.i == b.i && (a.j < b.j || (a.j == b.j && a.t ≤ b.t)))
def sortBonds (bs : List Bond) : List Bond := bs.mergeSort bondLe

def parseAtom (s : String) : Option Atom :=
  match s.splitOn "," with
  | [ch, ri, ins, rn, het, an, el, cg, ai, opt] => do
    pure ⟨dec ch, ← ri.toInt?, dec ins, dec rn, het == "1", dec an, dec el, ← cg.toInt?, ← ai.toInt?,
          (splitE "/" opt).map dec⟩
  | _ => none

def showAtom (a : Atom) : String :=
  joinWith "," [enc a.chain, toString a.resId, enc a.ins, enc a.resName, if a.hetero then "1" else "0",
    enc a.atomName, enc a.element, toString a.charge, toString a.atomId,
    if a.opt.isEmpty then "-" else joinWith "/" (a.opt.map enc)]

def parseCcdEntry (s : String) : Option (String × LinkClass × List ((String × String) × Nat)) :=
  match s.splitOn ":" with
  | [n, c, bs] => do
    let cls ← match c with | "pep" => some LinkClass.peptide | "nuc" => some .nucleic | "oth" => some .other | _ => none
    let bonds ← (if bs == "" then [] else bs.splitOn "+").mapM fun b =>
      match b.splitOn "/" with
      | [a1, a2, t] => do pure ((dec a1, dec a2), ← t.toNat?)
      | _ => none
    pure (dec n, cls, bonds)
  | _ => none

def showCharge : Option (Int × Mask) → String
  | none => "-"
  | some (c, m) => toString c ++ "/" ++ showMask m

def showSiteRow (r : SiteRow) : String :=
  joinWith "," [enc r.group, enc r.element, enc r.atomName, showCell r.alt, enc r.comp, enc r.asym,
    toString r.entity, toString r.seq, showCell r.ins, showCharge r.charge, toString r.id, toString r.model,
    enc r.xyz, if r.opt.isEmpty then "-" else joinWith "/" (r.opt.map enc)]

def parseSiteRow (s : String) : Option SiteRow :=
  match s.splitOn "," with
  | [g, el, an, alt, comp, asym, seq, ins, cg, id, model, xyz, occ] => do
    let charge ← if cg == "-" then some none else
      match cg.splitOn "/" with
      | [c, m] => do pure (some (← c.toInt?, ← parseMask m))
      | _ => none
    let occ ← if occ == "-" then some none else occ.toNat?.map some
    pure { group := dec g, element := dec el, atomName := dec an, alt := ← parseCell alt, comp := dec comp,
           asym := dec asym, entity := 0, seq := ← seq.toInt?, ins := ← parseCell ins, charge := charge,
           id := ← id.toInt?, model := ← model.toInt?, xyz := dec xyz, occ := occ, opt := [] }
  | _ => none

def showKey (k : Key) : String :=
  joinWith "," [enc k.asym, enc k.comp, toString k.seq, enc k.atom, enc k.ins]

def parseKey : List String → Option Key
  | [a, c, s, an, i] => do pure ⟨dec a, dec c, ← s.toInt?, dec an, dec i⟩
  | _ => none

def showConnRow (r : ConnRow) : String :=
  joinWith "," [toString r.id, enc r.typeId, showCell r.order, showKey r.p1, showKey r.p2]

def parseConnRow (s : String) : Option ConnRow :=
  match s.splitOn "," with
  | id :: tid :: ord :: rest =>
    if rest.length == 10 then do
      pure ⟨← id.toNat?, dec tid, ← parseCell ord, ← parseKey (rest.take 5), ← parseKey (rest.drop 5)⟩
    else none
  | _ => none

def showCcbRow (r : CompBondRow) : String :=
  joinWith "," [enc r.comp, enc r.atom1, enc r.atom2, showCell r.order, showCell r.arom]

def parseCcbRow (s : String) : Option CompBondRow :=
  match s.splitOn "," with
  | [c, a1, a2, o, f] => do pure ⟨dec c, dec a1, dec a2, ← parseCell o, ← parseCell f⟩
  | _ => none

def showRows {α : Type} (f : α → String) (xs : List α) : String :=
  if xs.isEmpty then "_" else joinWith ";" (xs.map f)

def showIntsR (r : Except Err (List Int)) : String :=
  match r with
  | .ok xs => showIntsE xs
  | .error e => "ERR:" ++ e.toString

def showStructure (s : Structure) : String :=
  "ok atoms=" ++ showRows showAtom s.atoms ++
  " coords=" ++ joinWith ";" (s.coords.map fun m => if m.isEmpty then "_" else joinWith "," (m.map enc)) ++
  " box=" ++ (match s.box with | some b => enc b | none => "-") ++
  " bonds=" ++ (match s.bonds with | some bs => showBonds (sortBonds bs) | none => "none")

def step (st : St) (line : String) : St × String :=
  match words line with
  | ["ccd", body] =>
    match (splitE ";" body).mapM parseCcdEntry with
    | some es => ({ st with ccd := es }, "ok")
    | none => (st, "bad-op")
  | ["atoms", c, i, body] =>
    match (splitE ";" body).mapM parseAtom with
    | some as => ({ st with atoms := as, hasCharge := c == "1", hasAtomId := i == "1" }, s!"ok {as.length}")
    | none => (st, "bad-op")
  | ["coords", body] =>
    let cs := (body.splitOn ";").map fun m => (splitE "," m).map dec
    ({ st with coords := cs }, s!"ok {cs.length}")
  | ["box", b] => ({ st with box := if b == "-" then none else some (dec b) }, "ok")
  | ["bonds", body] =>
    if body == "-" then ({ st with bonds := none }, "ok none") else
    match (splitE ";" body).mapM parseBond with
    | some bs =>
      let nb := normBonds bs
      ({ st with bonds := some nb }, "ok " ++ showBonds nb)
    | none => (st, "bad-op")
  | ["write", incl] =>
    match writeBlock st.structure (incl == "1") with
    | .ok b => ({ st with block := b, hasBlock := true }, "ok")
    | .error e => ({ st with hasBlock := false }, "ERR:" ++ e.toString)
  | ["show_site"] => (st, if !st.hasBlock then "ERR:no-block" else "ok " ++ showRows showSiteRow st.block.site)
  | ["show_conn"] =>
    (st, if !st.hasBlock then "ERR:no-block" else
      match st.block.conn with | some rs => "ok " ++ showRows showConnRow rs | none => "ok none")
  | ["show_ccb"] =>
    (st, if !st.hasBlock then "ERR:no-block" else
      match st.block.ccb with | some rs => "ok " ++ showRows showCcbRow rs | none => "ok none")
  | ["site", body] =>
    match (splitE ";" body).mapM parseSiteRow with
    | some rs => ({ st with block := { st.block with site := rs }, hasBlock := true }, s!"ok {rs.length}")
    | none => (st, "bad-op")
  | ["conn", body] =>
    if body == "-" then ({ st with block := { st.block with conn := none } }, "ok") else
    match (splitE ";" body).mapM parseConnRow with
    | some rs => ({ st with block := { st.block with conn := some rs } }, "ok")
    | none => (st, "bad-op")
  | ["ccb", body] =>
    if body == "-" then ({ st with block := { st.block with ccb := none } }, "ok") else
    match (splitE ";" body).mapM parseCcbRow with
    | some rs => ({ st with block := { st.block with ccb := some rs } }, "ok")
    | none => (st, "bad-op")
  | ["read", m, alt, incl, c, i] =>
    let model? : Option (Option Int) := if m == "all" then some none else m.toInt?.map some
    let alt? : Option AltPolicy := match alt with | "first" => some .first | "occ" => some .occupancy | _ => none
    if !st.hasBlock then (st, "ERR:no-block") else
    match model?, alt? with
    | some model, some alt =>
      match readStructure st.ccdOf st.block ⟨model, alt, incl == "1", c == "1", i == "1"⟩ with
      | .ok s => (st, showStructure s)
      | .error e => (st, "ERR:" ++ e.toString)
    | _, _ => (st, "bad-op")
  | ["boxes", body] =>
    -- per-model box tokens of a stack (`-` = no box): the written cell token and the boxes read back
    let boxes : Option (List Tok) := if body == "-" then none else some ((body.splitOn ",").map dec)
    let cell := writeCell boxes
    let n := match boxes with | some bs => bs.length | none => 1
    (st, "ok cell=" ++ (match cell with | some c => enc c | none => "-") ++ " read=" ++
      (match readBoxes cell n with | some bs => joinWith "," (bs.map enc) | none => "-"))
  | ["find", qs, rs] =>
    match (splitE ";" qs).mapM (fun k => parseKey (k.splitOn ",")), (splitE ";" rs).mapM (fun k => parseKey (k.splitOn ",")) with
    | some qs, some rs =>
      -- the caller (`_parse_inter_residue_bonds`) replaces "?" by "." in both tables first
      let qs := qs.map normKey
      let rs := rs.map normKey
      (st, "dense=" ++ showIntsR (findDense qs rs) ++ " dict=" ++ showIntsR (findDict qs rs))
    | _, _ => (st, "bad-op")
  | _ => (st, "bad-op")

def main : IO Unit := loop ({} : St) step

end BiotiteModel.Driver.C04

import BiotiteModel.Model.C19Cluster
/-! Line-protocol driver for C19 (see harness/props/c19.py for the protocol). -/
namespace BiotiteModel.Driver.C19
open BiotiteModel BiotiteModel.C19 BiotiteModel.Proto

def showRat (r : Rat) : String :=
  if r.den = 1 then toString r.num else toString r.num ++ "/" ++ toString r.den

def parseRat (s : String) : Option Rat :=
  match s.splitOn "/" with
  | [p] => p.toInt?.map (fun (z : Int) => (z : Rat))
  | [p, q] => match p.toInt?, q.toNat? with
    | some z, some d => if d = 0 then none else some (mkRat z d)
    | _, _ => none
  | _ => none

/-! ### trees as token lists: `L<i>` | `N<k>,<d>,<tree>,…` -/
mutual
partial def showT : T Rat → List String
  | .leaf i => ["L" ++ toString i]
  | .node cs => ("N" ++ toString cs.length) :: showF cs
partial def showF : F Rat → List String
  | .nil => []
  | .cons d t r => showRat d :: showT t ++ showF r
end
def showTree (t : T Rat) : String := joinWith "," (showT t)

/-- Parse one tree from a token list; `Except` carries constructor errors (`N0` → TreeError). -/
partial def parseT : List String → Option (Except Err (T Rat) × List String)
  | [] => none
  | tok :: rest =>
    if tok.startsWith "L" then (tok.drop 1).toNat?.map (fun i => (.ok (.leaf i), rest))
    else if tok.startsWith "N" then
      match (tok.drop 1).toNat? with
      | none => none
      | some k =>
        let rec go (k : Nat) (toks : List String) (acc : List (Rat × T Rat)) (err : Option Err) :
            Option (List (Rat × T Rat) × Option Err × List String) :=
          match k with
          | 0 => some (acc.reverse, err, toks)
          | k + 1 =>
            match toks with
            | [] => none
            | d :: toks' =>
              match parseRat d, parseT toks' with
              | some dv, some (.ok c, toks'') => go k toks'' ((dv, c) :: acc) err
              | some _, some (.error e, toks'') => go k toks'' acc (err <|> some e)
              | _, _ => none
        match go k rest [] none with
        | none => none
        | some (cs, err, toks) =>
          match err with
          | some e => some (.error e, toks)
          | none => if k = 0 then some (.error (.other "TreeError"), toks) else some (.ok (.node (F.ofList cs)), toks)
    else none

def parseTree (s : String) : Option (Except Err (T Rat)) :=
  match parseT (s.splitOn ",") with
  | some (r, []) => some r
  | _ => none

/-! ### canonical (order-free) form for clustering results: children sorted by smallest leaf -/
def minLeaf (t : T Rat) : Nat := t.leaves.foldl min (t.leaves.headD 0)

def insertBy (x : Rat × T Rat) : List (Rat × T Rat) → List (Rat × T Rat)
  | [] => [x]
  | y :: ys => if minLeaf x.2 ≤ minLeaf y.2 then x :: y :: ys else y :: insertBy x ys

mutual
partial def canonT : T Rat → T Rat
  | .leaf i => .leaf i
  | .node cs => .node (F.ofList ((canonF cs).foldr insertBy []))
partial def canonF : F Rat → List (Rat × T Rat)
  | .nil => []
  | .cons d t r => (d, canonT t) :: canonF r
end

/-! ### strings: `.`-separated code points, `_` = empty; label lists `;`-separated, `-` = None, `!` = [] -/
def parseStr (s : String) : Option (List Char) :=
  if s = "_" then some [] else (s.splitOn ".").mapM (fun w => w.toNat?.map Char.ofNat)
def showStr (cs : List Char) : String :=
  if cs.isEmpty then "_" else joinWith "." (cs.map (fun c => toString c.toNat))
def parseLabels (s : String) : Option (Option (List (List Char))) :=
  if s = "-" then some none else if s = "!" then some (some []) else ((s.splitOn ";").mapM parseStr).map some
def parsePath (s : String) : Option (List Nat) :=
  if s = "_" then some [] else (s.splitOn ".").mapM String.toNat?
def showPath (p : List Nat) : String := if p.isEmpty then "_" else joinWith "." (p.map toString)

/-! ### branch-length tokens of the exact stream: finite decimal expansions
(= Python `repr(float)` for dyadic values with few digits and `1e-4 ≤ |x| < 1e16`) -/
def isPow2 (n : Nat) : Bool := n != 0 && (n &&& (n - 1)) == 0

def fracDigits (den : Nat) : Nat → Nat → List Char
  | 0, _ => []
  | fuel + 1, r => if r = 0 then [] else Char.ofNat (48 + r * 10 / den) :: fracDigits den fuel (r * 10 % den)

def showDec? (r : Rat) : Option (List Char) :=
  let a := r.num.natAbs
  if !isPow2 r.den || r.den > 1048576 then none
  else if r ≠ 0 ∧ (a * 10000 < r.den ∨ a ≥ 10000000000000000 * r.den) then none
  else
    let ip := a / r.den
    let fr := fracDigits r.den 64 (a % r.den)
    some ((if r < 0 then ['-'] else []) ++ (toString ip).toList ++ '.' :: (if fr.isEmpty then ['0'] else fr))

def showDec (r : Rat) : List Char := (showDec? r).getD ['?']

mutual
partial def allDec : T Rat → Bool
  | .leaf _ => true
  | .node cs => allDecF cs
partial def allDecF : F Rat → Bool
  | .nil => true
  | .cons d t r => (showDec? d).isSome && allDec t && allDecF r
end

/-- `float(str)` for `[+-]digits[.digits][(e|E)[+-]digits]` (at least one mantissa digit); everything else
the driver treats as a `ValueError` (Python also accepts `inf`, `nan`, `_` separators and non-ASCII digits:
those tokens are exercised by the oracle only). -/
def parseDec (s : List Char) : Option Rat :=
  let (neg, body) := match s with
    | '-' :: r => (true, r)
    | '+' :: r => (false, r)
    | r => (false, r)
  let mant := body.takeWhile (fun c => c != 'e' && c != 'E')
  let expPart := body.drop mant.length
  let exp? : Option Int := match expPart with
    | [] => some 0
    | _ :: e =>
      let (eneg, ed) := match e with
        | '-' :: r => (true, r)
        | '+' :: r => (false, r)
        | r => (false, r)
      if ed.isEmpty || !ed.all Char.isDigit then none
      else
        let v : Nat := ed.foldl (fun acc c => acc * 10 + (c.toNat - 48)) 0
        some (if eneg then -(Int.ofNat v) else Int.ofNat v)
  let ip := mant.takeWhile Char.isDigit
  let rest := mant.drop ip.length
  let fp? : Option (List Char) := match rest with
    | [] => some []
    | '.' :: f => if f.all Char.isDigit then some f else none
    | _ => none
  match fp?, exp? with
  | some fp, some ex =>
    if ip.isEmpty && fp.isEmpty then none else
    let v : Nat := (ip ++ fp).foldl (fun acc c => acc * 10 + (c.toNat - 48)) 0
    let r : Rat := mkRat (Int.ofNat v) (10 ^ fp.length)
    let r := if ex ≥ 0 then r * (10 : Rat) ^ ex.toNat else r / (10 : Rat) ^ (-ex).toNat
    some (if neg then -r else r)
  | _, _ => none

def showE (r : Except Err String) : String :=
  match r with
  | .ok s => "ok " ++ s
  | .error e => "ERR:" ++ e.toString

def matrix (n : Nat) (xs : List Rat) : Nat → Nat → Rat :=
  let a := xs.toArray
  fun i j => a.getD (i * n + j) 0

def parseRats (s : String) : Option (List Rat) :=
  if s = "_" then some [] else (s.splitOn ",").mapM parseRat

def withTree (s : String) (k : T Rat → String) : String :=
  match parseTree s with
  | none => "bad-op"
  | some (.error e) => "ERR:" ++ e.toString
  | some (.ok t) => k t

def step (_ : Unit) (line : String) : Unit × String :=
  let out : String :=
    match words line with
    | ["upgma", n, xs] =>
      match n.toNat?, parseRats xs with
      | some n, some xs =>
        if xs.length ≠ n * n then "bad-op" else
        showE ((upgma n (matrix n xs)).map (fun t => showTree (canonT t)))
      | _, _ => "bad-op"
    | ["nj", n, xs] =>
      match n.toNat?, parseRats xs with
      | some n, some xs =>
        if xs.length ≠ n * n then "bad-op" else
        showE ((neighborJoining n (matrix n xs)).map (fun t => showTree (canonT t)))
      | _, _ => "bad-op"
    | ["write", inc, ls, t] =>
      match parseLabels ls with
      | none => "bad-op"
      | some labels => withTree t fun t =>
        match mkTree t with
        | .error e => "ERR:" ++ e.toString
        | .ok t =>
          if inc = "1" && !allDec t then "unmodelled" else
          showE ((treeToNewick labels (inc = "1") showDec (0 : Rat) t).map showStr)
    | ["read", ls, s] =>
      match parseLabels ls, parseStr s with
      | some labels, some s => showE ((treeFromNewick labels parseDec (0 : Rat) s).map showTree)
      | _, _ => "bad-op"
    | ["nread", ls, s] =>
      match parseLabels ls, parseStr s with
      | some labels, some s =>
        showE ((fromNewick labels parseDec (0 : Rat) s).map (fun r => showTree r.1 ++ " " ++ showRat r.2))
      | _, _ => "bad-op"
    | ["dist", topo, i, j, t] =>
      match i.toNat?, j.toNat? with
      | some i, some j => withTree t fun t =>
        match mkTree t with
        | .error e => "ERR:" ++ e.toString
        | .ok t => showE ((getDistance t (topo = "1") i j).map showRat)
      | _, _ => "bad-op"
    | ["ndist", topo, p, q, t] =>
      match parsePath p, parsePath q with
      | some p, some q => withTree t fun t =>
        if (t.sub? p).isNone || (t.sub? q).isNone then "bad-op" else
        showE ((distanceTo t (topo = "1") p q).map showRat)
      | _, _ => "bad-op"
    | ["lca", p, q, t] =>
      match parsePath p, parsePath q with
      | some p, some q => withTree t fun t =>
        if (t.sub? p).isNone || (t.sub? q).isNone then "bad-op" else
        match lca p q with
        | none => "ok None"
        | some a => "ok " ++ showPath a
      | _, _ => "bad-op"
    | ["binary", t] => withTree t fun t =>
        match mkTree t with
        | .error e => "ERR:" ++ e.toString
        | .ok t => showE ((asBinary t).map showTree)
    | ["binnode", t] => withTree t fun t =>
        match asBinaryNode t with
        | .node t' => "ok node " ++ showTree t'
        | .tuple t' none => "ok tuple " ++ showTree t' ++ " None"
        | .tuple t' (some d) => "ok tuple " ++ showTree t' ++ " " ++ showRat d
        | .typeError => "ERR:TypeError"
    | ["copy", t] => withTree t fun t => showE (t.copy.map showTree)
    | _ => "bad-op"
  ((), out)

def main : IO Unit := loop () step

end BiotiteModel.Driver.C19

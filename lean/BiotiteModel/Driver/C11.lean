import BiotiteModel.Model.C11Msa
/-! Line-protocol driver for C11 (see harness/props/c11.py for the op list). -/
namespace BiotiteModel.Driver.C11
open BiotiteModel BiotiteModel.C11 BiotiteModel.Proto

structure St where
  alph : List Char := []
  alphs : List (List Char) := []     -- per-row alphabets (`set`: all equal; `setm`: different alphabets per sequence)
  seqs : List (List Nat) := []
  trace : Trace := []
  k : Nat := 0      -- alphabet size (`setc`: huge generic alphabet whose symbols are the codes themselves)

def parseEntry (s : String) : Option (Option Nat) :=
  if s == "-" then some none else s.toNat?.map some

def parseCol (s : String) : Option Col := (s.splitOn ",").mapM parseEntry

def parseTrace (s : String) : Option Trace :=
  if s == "_" then some [] else (s.splitOn ";").mapM parseCol

def parsePTrace (s : String) : Option PTrace :=
  (parseTrace s).bind fun t => t.mapM fun c => match c with
    | [a, b] => some (a, b)
    | _ => none

def showEntry : Option Nat → String
  | none => "-"
  | some n => toString n

def showCol (c : Col) : String := joinWith "," (c.map showEntry)

def showTrace (t : Trace) : String := if t.isEmpty then "_" else joinWith ";" (t.map showCol)

def showRows (rows : List (List (Option Nat))) : String :=
  joinWith ";" (rows.map fun r => if r.isEmpty then "_" else showCol r)

def showStr (s : List Char) : String := if s.isEmpty then "_" else String.ofList s

def showStrs (ss : List (List Char)) : String := joinWith ";" (ss.map showStr)

def parseStrs (s : String) : List (List Char) :=
  (s.splitOn ";").map fun x => if x == "_" then [] else x.toList

def encode (alph : List Char) (s : List Char) : Option (List Nat) :=
  s.mapM fun c => let i := alph.idxOf c; if i < alph.length then some i else none

def decodeSeq (alph : List Char) (s : List Nat) : List Char := s.map fun c => alph.getD c '?'

def parseCodeSeqs (s : String) : Option (List (List Nat)) :=
  (s.splitOn ";").mapM fun x => parseNats x

def showCodeSeqs (ss : List (List Nat)) : String := joinWith ";" (ss.map showNatsE)

def showE {α : Type} (f : α → String) : Except Err α → String
  | .ok a => "ok " ++ f a
  | .error e => "ERR:" ++ e.toString

def showFrac (m l : Nat) : String :=
  let g := Nat.gcd m l
  if g = 0 then "nan" else s!"{m / g}/{l / g}"

def parseMode : String → Option IdMode
  | "all" => some .all | "nt" => some .notTerminal | "short" => some .shortest | _ => none

def parseIntMatrix (s : String) : Option (List (List Int)) := (s.splitOn ";").mapM parseInts

def parseIntrons (s : String) : Option (List (Int × Int)) :=
  if s == "_" then some [] else
  (s.splitOn ",").mapM fun x => match x.splitOn ":" with
    | [a, b] => match a.toInt?, b.toInt? with
      | some a, some b => some (a, b)
      | _, _ => none
    | _ => none

def parseBool : String → Option Bool
  | "1" => some true | "0" => some false | _ => none

def showOps (ops : List (Op × Nat)) : String :=
  if ops.isEmpty then "_" else joinWith "," (ops.map fun (o, n) => s!"{o.code}:{n}")

def showPTrace (t : PTrace) : String := showTrace t.toTrace

/-- guide tree text: `7` or `(L,R)` -/
partial def parseTree (cs : List Char) : Option (GTree × List Char) :=
  match cs with
  | '(' :: r =>
    match parseTree r with
    | some (l, ',' :: r2) =>
      match parseTree r2 with
      | some (rt, ')' :: r3) => some (.node l rt, r3)
      | _ => none
    | _ => none
  | _ =>
    let ds := cs.takeWhile Char.isDigit
    if ds.isEmpty then none else
    (String.ofList ds).toNat?.map fun n => (.leaf n, cs.dropWhile Char.isDigit)

/-- multifurcating tree text: `7` or `(A,B,C,…)` -/
partial def parseMTree (cs : List Char) : Option (MTree × List Char) :=
  match cs with
  | '(' :: r =>
    let rec children (r : List Char) (acc : List MTree) : Option (List MTree × List Char) :=
      match parseMTree r with
      | some (c, ',' :: r2) => children r2 (acc ++ [c])
      | some (c, ')' :: r2) => some (acc ++ [c], r2)
      | _ => none
    (children r []).map fun p => (.node p.1, p.2)
  | _ =>
    let ds := cs.takeWhile Char.isDigit
    if ds.isEmpty then none else
    (String.ofList ds).toNat?.map fun n => (.leaf n, cs.dropWhile Char.isDigit)

def showTree : GTree → String
  | .leaf i => toString i
  | .node l r => "(" ++ showTree l ++ "," ++ showTree r ++ ")"

def showOutcome : DistOutcome → String
  | .belowRandom => "belowRandom" | .zeroDivision => "zeroDivision" | .infinite => "infinite"
  | .notANumber => "notANumber" | .negative => "negative" | .finite => "finite"

/-- assign the recorded traces to the inner nodes in the order `_progressive_align` calls `align_optimal`
(post-order) -/
def labelTree : GTree → List PTrace → List ((List Nat × List Nat) × PTrace) × List PTrace
  | .leaf _, ts => ([], ts)
  | .node l r, ts =>
    let (a, ts1) := labelTree l ts
    let (b, ts2) := labelTree r ts1
    match ts2 with
    | [] => (a ++ b, [])
    | t :: rest => (a ++ b ++ [((l.leaves, r.leaves), t)], rest)

def mkAl (tbl : List ((List Nat × List Nat) × PTrace)) (o1 o2 : List Nat) : PTrace :=
  match tbl.find? fun e => e.1 == (o1, o2) with
  | some e => e.2
  | none => []

def cigarArgs (st : St) (ri si intr dm hc itg : String) :
    Option (WOpts × List Nat × List Nat × Except Err PTrace) :=
  match ri.toNat?, si.toNat?, parseIntrons intr, parseBool dm, parseBool hc, parseBool itg with
  | some ri, some si, some intr, some dm, some hc, some itg =>
    some (⟨intr, dm, hc, itg⟩, st.seqs.getD ri [], st.seqs.getD si [], pairOf st.trace ri si)
  | _, _, _, _, _, _ => none

def showOptOps (f : List (Op × Nat) → String) : Except Err (Option (List (Op × Nat))) → String
  | .ok (some ops) => "ok " ++ f ops
  | .ok none => "unmodelled"
  | .error e => "ERR:" ++ e.toString

def step (st : St) (line : String) : St × String :=
  match words line with
  | ["set", alph, seqs, tr] =>
    let alph := alph.toList
    match (parseStrs seqs).mapM (encode alph), parseTrace tr with
    | some ss, some t => ({ alph := alph, alphs := ss.map fun _ => alph, seqs := ss, trace := t, k := alph.length }, "ok")
    | _, _ => (st, "bad-op")
  | ["setm", alphs, seqs, tr] =>
    let alphs := (alphs.splitOn "|").map String.toList
    let strs := parseStrs seqs
    match (if alphs.length == strs.length then (alphs.zip strs).mapM fun p => encode p.1 p.2 else none), parseTrace tr with
    | some ss, some t => ({ alph := alphs.headD [], alphs := alphs, seqs := ss, trace := t, k := 0 }, "ok")
    | _, _ => (st, "bad-op")
  | ["fastagaps", chars, strs] =>
    (st, showE (fun (p : List (List Char) × Trace) => showStrs p.1 ++ " | " ++ showTrace p.2)
      (fastaGet (chars.toList.filter (· ≠ '-')) (parseStrs strs)))
  | ["setc", k, seqs, tr] =>
    match k.toNat?, parseCodeSeqs seqs, parseTrace tr with
    | some k, some ss, some t => ({ alph := [], seqs := ss, trace := t, k := k }, "ok")
    | _, _, _ => (st, "bad-op")
  | ["symcodes"] =>
    -- `get_symbols` for an alphabet whose symbol `i` is the integer `i`: the codes, AlphabetError outside the alphabet
    let r := match getCodes st.seqs st.trace with
      | .error e => .error e
      | .ok codes => mapE (fun row => mapE (fun x => match x with
          | none => .ok none
          | some c => if c < st.k then .ok (some c) else .error .alphabetError) row) codes
    (st, showE showRows r)
  | ["strings"] =>
    (st, showE showStrs (gappedStrings ((st.alphs.zip st.seqs).map fun p => decodeSeq p.1 p.2) st.trace))
  | ["fromstrings", s] => (st, showE showTrace (traceFromStrings (parseStrs s)))
  | ["fasta"] =>
    let r := match gappedStrings ((st.alphs.zip st.seqs).map fun p => decodeSeq p.1 p.2) st.trace with
      | .error e => .error e
      | .ok strs => fastaGet ['_'] strs
    (st, showE (fun (p : List (List Char) × Trace) => showStrs p.1 ++ " | " ++ showTrace p.2) r)
  | ["codes"] => (st, showE showRows (getCodes st.seqs st.trace))
  | ["symbols"] =>
    (st, showE (fun rows => joinWith ";" (rows.map fun r =>
      if r.isEmpty then "_" else String.ofList (r.map fun x => x.getD '-'))) (getSymbols st.alphs st.seqs st.trace))
  | ["termgaps"] => (st, showE (fun (p : Nat × Nat) => s!"{p.1} {p.2}") (findTerminalGaps st.seqs.length st.trace))
  | ["rmterm"] => (st, showE showTrace (removeTerminalGaps st.seqs.length st.trace))
  | ["rmgaps"] => (st, "ok " ++ showTrace (removeGaps st.trace))
  | ["sel", ks] =>
    match parseNats ks with
    | some ks => (st, showE showTrace (selectSeqs st.trace ks))
    | none => (st, "bad-op")
  | ["cols", a, b] =>
    match a.toNat?, b.toNat? with
    | some a, some b => (st, "ok " ++ showTrace (sliceCols st.trace a b))
    | _, _ => (st, "bad-op")
  | ["ident", m] =>
    match parseMode m with
    | some m => (st, showE (fun (p : Nat × Nat) => showFrac p.1 p.2) (identity st.seqs st.trace m))
    | none => (st, "ERR:ValueError")
  | ["pident", m] =>
    match parseMode m with
    | some m => (st, showE (fun rows => joinWith ";" (rows.map fun r =>
        joinWith "," (r.map fun (p : Nat × Nat) => showFrac p.1 p.2))) (pairIdentity st.seqs st.trace m))
    | none => (st, "ERR:ValueError")
  | ["score", M, go, ge, tp] =>
    match parseIntMatrix M, go.toInt?, ge.toInt?, parseBool tp with
    | some M, some go, some ge, some tp => (st, showE toString (score M go ge tp st.seqs st.trace))
    | _, _, _, _ => (st, "bad-op")
  | ["cigar_w", ri, si, intr, dm, hc, itg] =>
    match cigarArgs st ri si intr dm hc itg with
    | some (o, rs, ss, .ok pt) => (st, showOptOps (fun ops => String.ofList (printOps ops)) (writeOps o rs ss pt))
    | some (_, _, _, .error e) => (st, "ERR:" ++ e.toString)
    | none => (st, "bad-op")
  | ["cigar_t", ri, si, intr, dm, hc, itg] =>
    match cigarArgs st ri si intr dm hc itg with
    | some (o, rs, ss, .ok pt) => (st, showOptOps showOps (writeOps o rs ss pt))
    | some (_, _, _, .error e) => (st, "ERR:" ++ e.toString)
    | none => (st, "bad-op")
  | ["cigar_r", cig, pos] =>
    match pos.toNat? with
    | some pos => (st, showE showPTrace (readCigar pos (if cig == "_" then [] else cig.toList)))
    | none => (st, "bad-op")
  | ["cigar_rt", ri, si, intr, dm, hc, itg] =>
    match cigarArgs st ri si intr dm hc itg with
    | some (o, rs, ss, .ok pt) =>
      match writeOps o rs ss pt with
      | .error e => (st, "ERR:" ++ e.toString)
      | .ok none => (st, "unmodelled")
      | .ok (some ops) =>
        let written := match (if o.itg then .ok pt else trimSeg pt) with
          | .ok t => t
          | .error _ => []
        (st, showE showPTrace (readCigar ((firstRef written).getD 0) (printOps ops)))
    | some (_, _, _, .error e) => (st, "ERR:" ++ e.toString)
    | none => (st, "bad-op")
  | ["icol", _] =>
    -- `alignment[i]` with an integer: a single column is not an alignment (IndexError since fix 4fe9253f)
    (st, "ERR:IndexError")
  | ["tset", i, k, v] =>
    -- `alignment.trace[i, k] = v` in place
    match i.toNat?, k.toNat?, parseEntry v with
    | some i, some k, some v =>
      match st.trace[i]? with
      | some col => if k < col.length then ({ st with trace := st.trace.set i (col.set k v) }, "ok") else (st, "ERR:IndexError")
      | none => (st, "ERR:IndexError")
    | _, _, _ => (st, "bad-op")
  | ["sset", k, sq] =>
    -- `alignment.sequences[k] = <another sequence over the same alphabet>`
    match k.toNat? with
    | some k =>
      let str := if sq == "_" then [] else sq.toList
      match encode (st.alphs.getD k st.alph) str with
      | some codes => if k < st.seqs.length then ({ st with seqs := st.seqs.set k codes }, "ok") else (st, "ERR:IndexError")
      | none => (st, "bad-op")
    | none => (st, "bad-op")
  | ["tdel", a, b] =>
    -- `alignment.trace = np.delete(alignment.trace, slice(a, b), axis=0)`
    match a.toNat?, b.toNat? with
    | some a, some b => ({ st with trace := st.trace.take a ++ st.trace.drop (Nat.max a b) }, "ok")
    | _, _ => (st, "bad-op")
  | ["asbin", tree] =>
    match parseMTree tree.toList with
    | some (m, []) => match asBinary m with
      | some b => (st, "ok " ++ showTree b)
      | none => (st, "unmodelled")
    | _ => (st, "bad-op")
  | ["dist", S, Saa, Sbb, ps, L, no, ne, go, ge] =>
    match S.toInt?, Saa.toInt?, Sbb.toInt?, ps.toInt?, L.toNat?, no.toNat?, ne.toNat?, go.toInt?, ge.toInt? with
    | some S, some Saa, some Sbb, some ps, some L, some no, some ne, some go, some ge =>
      (st, "ok " ++ showOutcome (distOutcome ⟨S, Saa, Sbb, ps, L, no, ne, go, ge⟩))
    | _, _, _, _, _, _, _, _, _ => (st, "bad-op")
  | ["msa", g, seqs, tree, traces] =>
    match g.toNat?, parseCodeSeqs seqs, parseTree tree.toList,
          (if traces == "_" then some [] else (traces.splitOn "|").mapM parsePTrace) with
    | some g, some seqs, some (tree, []), some trs =>
      let (tbl, _) := labelTree tree trs
      let al := mkAl tbl
      let out := match alignMultiple al g seqs tree with
        | .error e => "ERR:" ++ e.toString
        | .ok none => "unmodelled"
        | .ok (some r) => s!"ok {showTrace r.trace} | {showNatsE r.order} | {showCodeSeqs r.seqs} | valid={allValidB al g seqs tree}"
      (st, out)
    | _, _, _, _ => (st, "bad-op")
  | _ => (st, "bad-op")

def main : IO Unit := Proto.loop ({} : St) step

end BiotiteModel.Driver.C11

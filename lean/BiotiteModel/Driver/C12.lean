import BiotiteModel.Model.C12Feat
/-! Line-protocol driver for C12.  Strings travel as comma separated code points (`_` = empty),
lists of strings joined by `|` (`-` = empty list), pairs by `~`, nested lists by `^`. -/
namespace BiotiteModel.Driver.C12
open BiotiteModel BiotiteModel.C12 BiotiteModel.Proto

def decStr (t : String) : Option Str := (parseNats t).map (·.map Char.ofNat)
def encStr (s : Str) : String := showNatsE (s.map Char.toNat)
def decListWith (sep : String) (t : String) : Option (List Str) :=
  if t == "-" then some [] else (t.splitOn sep).mapM decStr
def decList := decListWith "|"
def encList (ls : List Str) : String := if ls.isEmpty then "-" else joinWith "|" (ls.map encStr)
def encBytes (b : Bytes) : String := showNatsE b

def errS (e : Err) : String := "ERR:" ++ e.toString

inductive St where
  | none | fa (f : Fasta) | fq (f : Fastq) | gff (g : Gff) | gb (g : Gb)

def showItemsFa (f : Fasta) : String :=
  match fastaItems f with
  | .ok it => if it.isEmpty then "-" else joinWith "|" (it.map (fun p => encStr p.1 ++ "~" ++ encStr p.2))
  | .error e => errS e

def showFa (f : Fasta) : String :=
  match fastaItems f with
  | .ok _ => s!"ok L={encList f.lines} E={showItemsFa f}"
  | .error e => errS e

def showItemsFq (f : Fastq) : String :=
  match fastqItems f with
  | .ok it => if it.isEmpty then "-" else joinWith "|" (it.map (fun p => encStr p.1 ++ "~" ++ encStr p.2.1 ++ "~" ++ showIntsE p.2.2))
  | .error e => errS e

def showFq (f : Fastq) : String :=
  match fastqItems f with
  | .ok _ => s!"ok L={encList f.lines} E={showItemsFq f}"
  | .error e => errS e

def optNat (s : String) : Option (Option Nat) := if s == "-" then some none else s.toNat?.map some

/-- `first:last:rev:bits` -/
def decLoc (t : String) : Option Loc :=
  match t.splitOn ":" with
  | [a, b, r, d] =>
    match a.toInt?, b.toInt?, r.toNat?, d.toNat? with
    | some a, some b, some r, some d =>
      some ⟨a, b, r == 1, { missL := d % 2 == 1, missR := d / 2 % 2 == 1, bl := d / 4 % 2 == 1,
                            br := d / 8 % 2 == 1, unk := d / 16 % 2 == 1, btw := d / 32 % 2 == 1 }⟩
    | _, _, _, _ => none
  | _ => none

def encLoc (l : Loc) : String :=
  let b (x : Bool) (v : Nat) : Nat := if x then v else 0
  let d := b l.defect.missL 1 + b l.defect.missR 2 + b l.defect.bl 4 + b l.defect.br 8 + b l.defect.unk 16 + b l.defect.btw 32
  s!"{l.first}:{l.last}:{if l.rev then 1 else 0}:{d}"

def decPairs (t : String) : Option (List (Str × Str)) :=
  if t == "-" then some [] else
  (t.splitOn "|").mapM (fun p => match p.splitOn "~" with
    | [k, v] => match decStr k, decStr v with | some k, some v => some (k, v) | _, _ => none
    | _ => none)

/-- words: seqid source type start end score strand phase attrs -/
def decEntry (w : List String) : Option (GffEntry Str) :=
  match w with
  | [sid, src, ty, a, b, sc, sd, ph, att] =>
    match decStr sid, decStr src, decStr ty, a.toInt?, b.toInt?, decPairs att with
    | some sid, some src, some ty, some a, some b, some att =>
      let score := if sc == "-" then some none else (decStr sc).map some
      let strand : Option (Option Bool) := match sd with | "+" => some (some false) | "-" => some (some true) | "." => some none | _ => none
      let phase : Option (Option Int) := if ph == "." then some none else ph.toInt?.map some
      match score, strand, phase with
      | some score, some strand, some phase => some ⟨sid, src, ty, a, b, score, strand, phase, att⟩
      | _, _, _ => none
    | _, _, _, _, _, _ => none
  | _ => none

def entryB (e : GffEntry Bytes) : String :=
  let att := e.attrs.map (fun kv => encBytes kv.1 ++ "~" ++ encBytes kv.2)
  let sc := match e.score with | none => "-" | some t => encStr t
  let sd := match e.strand with | some false => "+" | some true => "-" | none => "."
  let ph := match e.phase with | none => "." | some p => toString p
  s!"{encBytes e.seqid} {encBytes e.source} {encBytes e.type} {e.start} {e.stop} {sc} {sd} {ph} {if att.isEmpty then "-" else joinWith "|" att}"

def encEntryB (e : GffEntry Bytes) : String := "ok " ++ entryB e

def slashed (t : String) : String := t.replace " " "/"

def showGff (g : Gff) : String :=
  let ds := g.idx.directives.map (fun d => s!"{encStr d.1}:{d.2}")
  let vs := (List.range g.idx.entries.length).map (fun (i : Nat) =>
    match gffGet g (i : Int) with | .ok e => slashed (entryB e) | .error e => errS e)
  s!"ok L={encList g.lines} D={if ds.isEmpty then "-" else joinWith ";" ds} V={if vs.isEmpty then "-" else joinWith ";" vs}"

/-- subfields: `name~line^line|name~line` -/
def decSubs (t : String) : Option (List (Str × List Str)) :=
  if t == "-" then some [] else
  (t.splitOn "|").mapM (fun p => match p.splitOn "~" with
    | [k, v] => match decStr k, decListWith "^" v with | some k, some v => some (k, v) | _, _ => none
    | _ => none)

def encSubs (s : List (Str × List Str)) : String :=
  if s.isEmpty then "-" else
  joinWith "|" (s.map (fun p => encStr p.1 ++ "~" ++ (if p.2.isEmpty then "-" else joinWith "^" (p.2.map encStr))))

def gbItem (t : Str × List Str × List (Str × List Str)) : String :=
  s!"{encStr t.1} {encList t.2.1} {encSubs t.2.2}"

def showGb (g : Gb) : String :=
  let vs := (List.range g.pos.length).map (fun (i : Nat) =>
    match gbGet g (i : Int) with | .ok t => slashed (gbItem t) | .error e => errS e)
  s!"ok L={encList g.lines} V={if vs.isEmpty then "-" else joinWith ";" vs}"

def sortDedup (l : List String) : List String := (l.toArray.qsort (· < ·)).toList.eraseDups

/-- `type:start:end:strand:attrs` -/
def decGEnt (t : String) : Option (GEnt Str) :=
  match t.splitOn ":" with
  | [ty, a, b, sd, att] =>
    let strand : Option (Option Bool) := match sd with | "+" => some (some false) | "-" => some (some true) | "." => some none | _ => none
    match decStr ty, a.toInt?, b.toInt?, strand, decPairs att with
    | some ty, some a, some b, some sd, some att => some ⟨ty, (a, b, sd), att⟩
    | _, _, _, _, _ => none
  | _ => none

def encGFeat (f : GFeat Str) : String :=
  let locs := sortDedup (f.locs.map (fun l => s!"{l.1}/{l.2.1}/{match l.2.2 with | some false => "+" | some true => "-" | none => "."}"))
  let att := f.qual.map (fun kv => encStr kv.1 ++ "~" ++ encStr kv.2)
  s!"{encStr f.key}:{joinWith "|" locs}:{if att.isEmpty then "-" else joinWith "|" att}"

/-- qualifiers `k~v|k~!` (`!` = no value) -/
def decQuals (t : String) : Option (List Qual) :=
  if t == "-" then some [] else
  (t.splitOn "|").mapM (fun p => match p.splitOn "~" with
    | [k, v] => match decStr k with
      | some k => if v == "!" then some (k, none) else (decStr v).map (fun v => (k, some v))
      | none => none
    | _ => none)

def encQuals (q : List Qual) : String :=
  if q.isEmpty then "-" else
  joinWith "|" (q.map (fun kv => encStr kv.1 ++ "~" ++ (match kv.2 with | some v => encStr v | none => "!")))

/-- feature `key@loc;loc@quals` -/
def decFeat (t : String) : Option GbFeat :=
  match t.splitOn "@" with
  | [k, ls, q] =>
    match decStr k, (ls.splitOn ";").mapM decLoc, decQuals q with
    | some k, some ls, some q => some ⟨k, ls, q⟩
    | _, _, _ => none
  | _ => none

def encFeat (f : GbFeat) : String :=
  s!"{encStr f.key}@{joinWith ";" (sortDedup (f.locs.map encLoc))}@{encQuals f.quals}"

def showFeats (r : Except Err (List GbFeat)) : String :=
  match r with
  | .ok fs => let l := sortDedup (fs.map encFeat); "ok " ++ (if l.isEmpty then "-" else joinWith "#" l)
  | .error e => errS e

def asciiOnly (s : Str) : Bool := s.all (fun c => c.toNat < 128)

def upd {α : Type} (st : St) (r : Except Err α) (wrapSt : α → St) (sh : α → String) : St × String :=
  match r with
  | .ok x => (wrapSt x, sh x)
  | .error e => (st, errS e)

def step (st : St) (line : String) : St × String :=
  let bad : St × String := (st, "bad-op")
  match words line with
  | ["wrap", w, s] =>
    match w.toNat?, decStr s with
    | some w, some s => (st, match wrapE w s with | .ok c => "ok " ++ encList c | .error e => errS e)
    | _, _ => bad
  -- ---------------------------------------------------------------- FASTA
  | ["fa_new", cpl] => match cpl.toNat? with | some c => (.fa (Fasta.empty c), "ok") | none => bad
  | ["fa_read", cpl, ls] =>
    match cpl.toNat?, decList ls with
    | some c, some ls => upd st (fastaRead ls c) .fa showFa
    | _, _ => bad
  | ["fa_set", h, s] =>
    match st, decStr h, decStr s with
    | .fa f, some h, some s => upd st (fastaSet f h s) .fa showFa
    | _, _, _ => bad
  | ["fa_del", h] =>
    match st, decStr h with
    | .fa f, some h => upd st (fastaDel f h) .fa showFa
    | _, _ => bad
  | ["fa_get", h] =>
    match st, decStr h with
    | .fa f, some h => (st, match fastaGet f h with | .ok s => "ok " ++ encStr s | .error e => errS e)
    | _, _ => bad
  | ["fa_reread"] =>
    match st with
    | .fa f => upd st (fastaRead (textRoundTrip f.lines) f.cpl) .fa showFa
    | _ => bad
  | ["fa_items"] =>
    match st with
    | .fa f => (st, match fastaItems f with | .ok _ => "ok " ++ showItemsFa f | .error e => errS e)
    | _ => bad
  -- ---------------------------------------------------------------- FASTQ
  | ["fq_new", off, cpl] =>
    match off.toInt?, optNat cpl with
    | some o, some c => (.fq (Fastq.empty o c), "ok")
    | _, _ => bad
  | ["fq_read", off, cpl, ls] =>
    match off.toInt?, optNat cpl, decList ls with
    | some o, some c, some ls => upd st (fastqRead ls o c) .fq showFq
    | _, _, _ => bad
  | ["fq_set", h, s, qs] =>
    match st, decStr h, decStr s, parseInts qs with
    | .fq f, some h, some s, some qs => upd st (fastqSet f h s qs) .fq showFq
    | _, _, _, _ => bad
  | ["fq_del", h] =>
    match st, decStr h with
    | .fq f, some h => upd st (fastqDel f h) .fq showFq
    | _, _ => bad
  | ["fq_get", h] =>
    match st, decStr h with
    | .fq f, some h => (st, match fastqGet f h with
        | .ok (s, qs) => s!"ok {encStr s} {showIntsE qs}" | .error e => errS e)
    | _, _ => bad
  | ["fq_reread"] =>
    match st with
    | .fq f => upd st (fastqRead (textRoundTrip f.lines) f.off f.cpl) .fq showFq
    | _ => bad
  | ["fq_items"] =>
    match st with
    | .fq f => (st, match fastqItems f with | .ok _ => "ok " ++ showItemsFq f | .error e => errS e)
    | _ => bad
  | ["fq_enc", off, qs] =>
    match off.toInt?, parseInts qs with
    | some o, some qs => (st, match encodeScores o qs with | .ok s => "ok " ++ encStr s | .error e => errS e)
    | _, _ => bad
  | ["fq_dec", off, s] =>
    match off.toInt?, decStr s with
    | some o, some s => (st, match decodeScores o s with | .ok qs => "ok " ++ showIntsE qs | .error e => errS e)
    | _, _ => bad
  -- ---------------------------------------------------------------- GenBank locations
  | ["loc_print", ls] =>
    match (ls.splitOn ";").mapM decLoc with
    | some ls => (st, "ok " ++ encStr (printLocs ls))
    | none => bad
  | ["loc_rt", ls] =>
    match (ls.splitOn ";").mapM decLoc with
    | some ls =>
      let p := printLocs ls
      (st, s!"ok {encStr p} => " ++ (match parseLocs p with
        | some r => if r.isEmpty then "-" else joinWith ";" (r.map encLoc)
        | none => "skip"))
    | none => bad
  | ["loc_parse", s] =>
    match decStr s with
    | some s =>
      if !asciiOnly s || s.contains '_' then (st, "unmodelled") else
      (st, match parseLocs s with
        | some ls => "ok " ++ (if ls.isEmpty then "-" else joinWith ";" (ls.map encLoc))
        | none => "skip")
    | none => bad
  -- ---------------------------------------------------------------- GFF
  | ["gff_quote", safe, s] =>
    match parseNats safe, decStr s with
    | some safe, some s => (st, "ok " ++ encStr (quote safe s))
    | _, _ => bad
  | ["gff_unquote", s] =>
    match decStr s with
    | some s => (st, if asciiOnly s then "ok " ++ encBytes (unquoteB s) else "unmodelled")
    | none => bad
  | "gff_line" :: safe :: ent =>
    match parseNats safe, decEntry ent with
    | some safe, some e => (st, match createLine safe e with | .ok l => "ok " ++ encStr l | .error e => errS e)
    | _, _ => bad
  | "gff_rt" :: safe :: ent =>
    match parseNats safe, decEntry ent with
    | some safe, some e =>
      (st, match createLine safe e with
        | .error er => errS er
        | .ok l =>
          let r := if (gffIndex [l]).entries.isEmpty then "ERR:IndexError" else
            match parseLine l with | .ok e => entryB e | .error er => errS er
          s!"ok {encStr l} => {r}")
    | _, _ => bad
  | ["gff_parse", l] =>
    match decStr l with
    | some l => (st, if (gffIndex [l]).entries.isEmpty then "no-entry" else
        match parseLine l with | .ok e => encEntryB e | .error e => errS e)
    | none => bad
  | ["gbf_parse", ls] =>
    match decList ls with
    | some ls => (st, showFeats (parseFeatures ls))
    | none => bad
  | ["gbf_print", ft] =>
    match decFeat ft with
    | some f => (st, match printFeaturesE [f] with | .ok ls => "ok " ++ encList ls | .error e => errS e)
    | none => bad
  | ["gbf_rt", fts] =>
    match (fts.splitOn "#").mapM decFeat with
    | some fs => (st, match printFeaturesE fs with | .ok ls => showFeats (parseFeatures ls) | .error e => errS e)
    | none => bad
  | ["org_print", start, sq] =>
    match start.toInt?, decStr sq with
    | some a, some sq => (st, "ok " ++ encList (printOrigin a sq))
    | _, _ => bad
  | ["org_read", ls] =>
    match decList ls with
    | some ls =>
      let a := match originStart ls with | .ok a => toString a | .error e => errS e
      (st, s!"ok {a} {encStr (originSeq ls)}")
    | none => bad
  | ["gff_group", ents] =>
    match (if ents == "-" then some [] else (ents.splitOn ";").mapM decGEnt) with
    | some es =>
      let fs := sortDedup ((gffGroup "ID".toList es).map encGFeat)
      (st, "ok " ++ (if fs.isEmpty then "-" else joinWith ";" fs))
    | none => bad
  | ["gff_new"] => (.gff Gff.empty, showGff Gff.empty)
  | ["gff_read", ls] =>
    match decList ls with
    | some ls => (.gff (gffRead ls), showGff (gffRead ls))
    | none => bad
  | "gff_append" :: safe :: ent =>
    match st, parseNats safe, decEntry ent with
    | .gff g, some safe, some e =>
      -- `append` refuses a file with a `##FASTA` part BEFORE it creates the line (a refusal either way, but another class)
      if g.idx.hasFasta then (st, errS .notImplemented) else
      (match createLine safe e with
       | .error er => (st, errS er)
       | .ok l => upd st (gffAppend g l) .gff showGff)
    | _, _, _ => bad
  | "gff_insert" :: idx :: safe :: ent =>
    match st, idx.toInt?, parseNats safe, decEntry ent with
    | .gff g, some i, some safe, some e =>
      -- `insert` creates the line only on the non-append path, after `self._entries[index]`
      if i = g.idx.entries.length then
        if g.idx.hasFasta then (st, errS .notImplemented) else
        (match createLine safe e with
         | .error er => (st, errS er)
         | .ok l => upd st (gffAppend g l) .gff showGff)
      else
        (match pyIndex g.idx.entries i with
         | .error er => (st, errS er)
         | .ok _ =>
           match createLine safe e with
           | .error er => (st, errS er)
           | .ok l => upd st (gffInsert g i l) .gff showGff)
    | _, _, _, _ => bad
  | "gff_set" :: idx :: safe :: ent =>
    match st, idx.toInt?, parseNats safe, decEntry ent with
    | .gff g, some i, some safe, some e =>
      (match createLine safe e with
       | .error er => (st, errS er)
       | .ok l => upd st (gffSet g i l) .gff showGff)
    | _, _, _, _ => bad
  -- `*_poke`: the caller mutates every object the file handed out (entry tuples / attribute dicts,
  -- field content lists and subfield dicts, score arrays) and every object it passed in before;
  -- the model's values are immutable, i.e. the specification is "nothing changes".
  -- `*_copy`: continue on `file.copy()` (the copy must be an equal, independent file object)
  | ["gff_copy"] => match st with | .gff g => (st, showGff g) | _ => bad
  | ["gb_copy"] => match st with | .gb g => (st, showGb g) | _ => bad
  | ["fq_copy"] => match st with | .fq f => (st, showFq f) | _ => bad
  | ["fa_copy"] => match st with | .fa f => (st, showFa f) | _ => bad
  | ["gff_poke"] => match st with | .gff g => (st, showGff g) | _ => bad
  | ["gb_poke"] => match st with | .gb g => (st, showGb g) | _ => bad
  | ["fq_poke"] => match st with | .fq f => (st, showFq f) | _ => bad
  | ["fa_poke"] => match st with | .fa f => (st, showFa f) | _ => bad
  | ["gff_reread"] =>
    match st with
    | .gff g => (.gff (gffRead (textRoundTrip g.lines)), showGff (gffRead (textRoundTrip g.lines)))
    | _ => bad
  | ["gff_del", idx] =>
    match st, idx.toInt? with
    | .gff g, some i => upd st (gffDel g i) .gff showGff
    | _, _ => bad
  | ["gff_directive", d, text] =>
    match st, decStr d, decStr text with
    | .gff g, some d, some t => upd st (gffAppendDirective g d t) .gff showGff
    | _, _, _ => bad
  | ["gff_get", idx] =>
    match st, idx.toInt? with
    | .gff g, some i => (st, match gffGet g i with | .ok e => encEntryB e | .error e => errS e)
    | _, _ => bad
  -- ---------------------------------------------------------------- GenBank file object
  | ["gb_new"] => (.gb Gb.empty, showGb Gb.empty)
  | ["gb_read", ls] =>
    match decList ls with
    | some ls => (.gb (gbRead ls), showGb (gbRead ls))
    | none => bad
  | ["gb_set", idx, name, content, subs] =>
    match st, idx.toInt?, decStr name, decList content, decSubs subs with
    | .gb g, some i, some n, some c, some s => upd st (gbSet g i n c s) .gb showGb
    | _, _, _, _, _ => bad
  | ["gb_insert", idx, name, content, subs] =>
    match st, idx.toInt?, decStr name, decList content, decSubs subs with
    | .gb g, some i, some n, some c, some s => upd st (gbInsert g i n c s) .gb showGb
    | _, _, _, _, _ => bad
  | ["gb_append", name, content, subs] =>
    match st, decStr name, decList content, decSubs subs with
    | .gb g, some n, some c, some s => upd st (gbAppend g n c s) .gb showGb
    | _, _, _, _ => bad
  | ["gb_setfield", name, content, subs] =>
    match st, decStr name, decList content, decSubs subs with
    | .gb g, some n, some c, some s => upd st (gbSetField g n c s) .gb showGb
    | _, _, _, _ => bad
  | ["gb_reread"] =>
    match st with
    | .gb g => (.gb (gbRead (textRoundTrip g.lines)), showGb (gbRead (textRoundTrip g.lines)))
    | _ => bad
  | ["gb_del", idx] =>
    match st, idx.toInt? with
    | .gb g, some i => upd st (gbDel g i) .gb showGb
    | _, _ => bad
  | ["gb_get", idx] =>
    match st, idx.toInt? with
    | .gb g, some i => (st, match gbGet g i with
        | .ok t => "ok " ++ gbItem t | .error e => errS e)
    | _, _ => bad
  | _ => bad

def main : IO Unit := loop St.none step

end BiotiteModel.Driver.C12

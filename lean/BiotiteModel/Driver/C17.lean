import BiotiteModel.Model.C17
/-! Line-protocol driver for C17: one output line per input line. -/
namespace BiotiteModel.Driver.C17
open BiotiteModel BiotiteModel.C17 BiotiteModel.Proto

structure St where
  atoms : List Atom := []
  n : Nat := 0
  bonds : List (Nat × Nat) := []

/-- `chain:res:ins:name` or `chain:res:ins:name:hetero`; the hetero flag (like every annotation other than
the four above) plays no role in the segmentation and is dropped. -/
def parseAtom (s : String) : Option Atom :=
  let mk (c r i nm : String) : Option Atom :=
    match c.toNat?, r.toInt?, i.toNat?, nm.toNat? with
    | some c, some r, some i, some nm => some ⟨c, r, i, nm⟩
    | _, _, _, _ => none
  match s.splitOn ":" with
  | [c, r, i, nm] => mk c r i nm
  | [c, r, i, nm, h] => if h == "0" || h == "1" then mk c r i nm else none
  | _ => none

def parseAtoms (s : String) : Option (List Atom) :=
  if s == "_" then some [] else (s.splitOn ",").mapM parseAtom

/-- `i-j` or `i-j-t`; the bond type `t` (any `BondType`) plays no role in connectivity and is dropped. -/
def parseBond (s : String) : Option (Nat × Nat) :=
  match s.splitOn "-" with
  | [a, b] => match a.toNat?, b.toNat? with
    | some a, some b => some (a, b)
    | _, _ => none
  | [a, b, t] => match a.toNat?, b.toNat?, t.toNat? with
    | some a, some b, some _ => some (a, b)
    | _, _, _ => none
  | _ => none

def parseBonds (s : String) : Option (List (Nat × Nat)) :=
  if s == "_" then some [] else (s.splitOn ",").mapM parseBond

def showErr (e : Err) : String :=
  match e with
  | .other "CRASH" => "CRASH"
  | .other "unmodelled" => "unmodelled"
  | e => "ERR:" ++ e.toString

def showE {α : Type} (sh : α → String) (r : Except Err α) : String :=
  match r with
  | .ok x => "ok " ++ sh x
  | .error e => showErr e

def bits (row : List Bool) : String :=
  if row.isEmpty then "-" else String.ofList (row.map (fun b => if b then '1' else '0'))

def showRows (rows : List (List Bool)) : String :=
  if rows.isEmpty then "_" else joinWith ";" (rows.map bits)

def showGroups (gs : List (List Nat)) : String :=
  if gs.isEmpty then "_" else joinWith ";" (gs.map (fun g => if g.isEmpty then "-" else showNats g))

def startsWithStop (st : St) (which : String) : Option (List Nat) :=
  match which with
  | "r" => some (residueStarts st.atoms true)
  | "c" => some (chainStarts st.atoms true)
  | _ => none

def listMax : List Int → Int
  | [] => 0
  | x :: xs => xs.foldl max x

def listMin : List Int → Int
  | [] => 0
  | x :: xs => xs.foldl min x

def applyFn (ss : List Nat) (fn : String) (data : List Int) : Option String :=
  let sh (vs : List Int) : String := showIntsE vs
  match fn with
  | "sum" => some (sh (applySeg ss (fun s => s.foldl (· + ·) 0) data))
  | "max" => some (sh (applySeg ss listMax data))
  | "len" => some (sh (applySeg ss (fun s => (s.length : Int)) data))
  | "first" => some (sh (applySeg ss (fun s => s.headD 0) data))
  | "minmax" =>
    let vs := applySeg ss (fun s => (listMin s, listMax s)) data
    some (if vs.isEmpty then "_" else joinWith "," (vs.map (fun p => s!"{p.1}:{p.2}")))
  | _ => none

/-! ### `applyx`: reducing functions whose result type differs from the data type.
Values are exact rationals (`num/den`); numpy's result dtype kind (`i`, `f`, `b`) is part of the output. -/

structure Q where
  num : Int
  den : Nat

def Q.norm (n : Int) (d : Nat) : Q :=
  let g := Nat.gcd n.natAbs d
  if g = 0 then ⟨0, 1⟩ else ⟨n / (g : Int), d / g⟩
def Q.ofInt (n : Int) : Q := ⟨n, 1⟩
def Q.add (a b : Q) : Q := Q.norm (a.num * b.den + b.num * a.den) (a.den * b.den)
def Q.divNat (a : Q) (k : Nat) : Q := Q.norm a.num (a.den * k)
def Q.lt (a b : Q) : Bool := a.num * b.den < b.num * a.den
def Q.sum (l : List Q) : Q := l.foldl Q.add (Q.ofInt 0)
def Q.minL : List Q → Q
  | [] => Q.ofInt 0
  | x :: xs => xs.foldl (fun a b => if Q.lt b a then b else a) x
def Q.maxL : List Q → Q
  | [] => Q.ofInt 0
  | x :: xs => xs.foldl (fun a b => if Q.lt a b then b else a) x

def column (rows : List (List Q)) (j : Nat) : List Q := rows.filterMap (fun r => r[j]?)

/-- the reducing functions of the `applyx` stream on a segment (`rows` = atoms, `c` columns) -/
def reduceX (fn : String) (c : Nat) (rows : List (List Q)) : Option (List Q) :=
  let cols := (List.range c).map (column rows)
  match fn with
  | "mean0" => some (cols.map (fun col => (Q.sum col).divNat col.length))
  | "sum0" => some (cols.map Q.sum)
  | "half" => some (cols.map (fun col => (Q.sum col).divNat 2))
  | "anypos" => some (cols.map (fun col => Q.ofInt (if col.any (fun x => Q.lt (Q.ofInt 0) x) then 1 else 0)))
  | "minmaxmean" =>
    let flat := rows.flatten
    some [Q.minL flat, Q.maxL flat, (Q.sum flat).divNat flat.length]
  -- `np.sum` / `np.max` / `np.min` without axis: the whole segment (all columns) collapses to one scalar
  | "sumall" => some [Q.sum rows.flatten]
  | "maxall" => some [Q.maxL rows.flatten]
  | "minall" => some [Q.minL rows.flatten]
  -- the same functions called with `axis=0`: one value per column
  | "sumax0" => some (cols.map Q.sum)
  | "maxax0" => some (cols.map Q.maxL)
  | "minax0" => some (cols.map Q.minL)
  | _ => none

/-- numpy's result dtype kind for (function, data kind) -/
def resultKind (fn kind : String) : String :=
  match fn with
  | "mean0" | "half" | "minmaxmean" => "f"
  | "anypos" => "b"
  | "maxall" | "minall" | "maxax0" | "minax0" => kind      -- max / min keep the data dtype
  | _ => if kind == "f" then "f" else "i"       -- sums: bool and int sum to int

def showQ (kind : String) (q : Q) : String :=
  if kind == "f" then s!"{q.num}/{q.den}" else s!"{q.num}"

def chunk (c : Nat) : Nat → List Q → List (List Q)
  | 0, _ => []
  | n + 1, l => l.take c :: chunk c n (l.drop c)

def applyX (ss : List Nat) (fn kind : String) (cols : Nat) (data : List Int) : Option String :=
  let c := if cols = 0 then 1 else cols
  let toQ (k : Int) : Q := if kind == "f" then Q.norm k 2 else Q.ofInt k
  let rows := chunk c (data.length / c) (data.map toQ)
  let rk := resultKind fn kind
  let res := applySeg ss (reduceX fn c) rows
  match res.mapM id with
  | none => none
  | some vals =>
    if vals.isEmpty then some "_"
    else some (rk ++ " " ++ joinWith "," (vals.map (fun v => joinWith ":" (v.map (showQ rk)))))

def step (st : St) (line : String) : St × String :=
  match words line with
  | ["atoms", s] =>
    match parseAtoms s with
    | some xs => ({ st with atoms := xs }, s!"ok {xs.length}")
    | none => (st, "bad-op")
  -- the same annotations held by an AtomArrayStack of `d` models: the model count plays no role
  | ["stack", d] => (st, if d.toNat?.isSome then "ok" else "bad-op")
  -- in-place edits of the bond list between two molecule queries
  | ["rmbond", i, j] =>
    match i.toNat?, j.toNat? with
    | some i, some j =>
      ({ st with bonds := st.bonds.filter (fun b => !((b.1 == i && b.2 == j) || (b.1 == j && b.2 == i))) }, "ok")
    | _, _ => (st, "bad-op")
  | ["addbond", i, j, t] =>
    match i.toNat?, j.toNat?, t.toNat? with
    | some i, some j, some _ =>
      if i < st.n && j < st.n then ({ st with bonds := st.bonds ++ [(i, j)] }, "ok") else (st, "unmodelled")
    | _, _, _ => (st, "bad-op")
  -- in-place edit of the annotations of one atom (same array object on the Python side)
  | ["setatom", k, a] =>
    match k.toNat?, parseAtom a with
    | some k, some a => if k < st.atoms.length then ({ st with atoms := st.atoms.set k a }, "ok") else (st, "unmodelled")
    | _, _ => (st, "bad-op")
  | ["starts", w, stop] =>
    let addStop := stop == "1"
    match w with
    | "r" => (st, "ok " ++ showNatsE (residueStarts st.atoms addStop))
    | "c" => (st, "ok " ++ showNatsE (chainStarts st.atoms addStop))
    | _ => (st, "bad-op")
  | ["masks", w, idx] =>
    match startsWithStop st w, parseInts idx with
    | some ss, some idx => (st, showE showRows (segMasks ss idx))
    | _, _ => (st, "bad-op")
  | ["startsfor", w, idx] =>
    match startsWithStop st w, parseInts idx with
    | some ss, some idx => (st, showE showNatsE (segStartsFor ss idx))
    | _, _ => (st, "bad-op")
  | ["positions", w, idx] =>
    match startsWithStop st w, parseInts idx with
    | some ss, some idx => (st, showE showIntsE (segPositions ss idx))
    | _, _ => (st, "bad-op")
  | ["apply", w, fn, data] =>
    match startsWithStop st w, parseInts data with
    | some ss, some data =>
      match applyFn ss fn data with
      | some s => (st, "ok " ++ s)
      | none => (st, "bad-op")
    | _, _ => (st, "bad-op")
  | ["applyx", w, fn, kind, cols, data] =>
    match startsWithStop st w, cols.toNat?, parseInts data with
    | some ss, some cols, some data =>
      match applyX ss fn kind cols data with
      | some s => (st, "ok " ++ s)
      | none => (st, "bad-op")
    | _, _, _ => (st, "bad-op")
  | ["spread", w, input] =>
    match startsWithStop st w, parseInts input with
    | some ss, some input => (st, showE showIntsE (spreadSeg ss input))
    | _, _ => (st, "bad-op")
  | ["iter", w] =>
    match startsWithStop st w with
    | some ss => (st, "ok " ++ showGroups (segIter ss (List.range st.atoms.length)))
    | none => (st, "bad-op")
  | ["names", "r"] =>
    let xs := gather st.atoms (residueStarts st.atoms false)
    (st, "ok " ++ (if xs.isEmpty then "_" else joinWith "," (xs.map (fun a => s!"{a.res}:{a.name}"))))
  | ["names", "c"] =>
    let xs := gather st.atoms (chainStarts st.atoms false)
    (st, "ok " ++ showNatsE (xs.map (·.chain)))
  | ["count", "r"] => (st, s!"ok {(residueStarts st.atoms false).length}")
  | ["count", "c"] => (st, s!"ok {(chainStarts st.atoms false).length}")
  | ["graph", n, bs] =>
    match n.toNat?, parseBonds bs with
    | some n, some bs =>
      if bs.all (fun b => b.1 < n && b.2 < n) then ({ st with n := n, bonds := bs }, "ok")
      else (st, "unmodelled")
    | _, _ => (st, "bad-op")
  | ["connected", r] =>
    match r.toInt? with
    | some r => (st, showE showNatsE (findConnected st.n (neighbours st.bonds) r))
    | none => (st, "bad-op")
  | ["molecules"] =>
    match moleculeIndices st.n (neighbours st.bonds) with
    | some comps => (st, "ok " ++ showGroups comps)
    | none => (st, "CRASH")
  | ["molmasks"] =>
    match moleculeMasks st.n (neighbours st.bonds) with
    | some rows => (st, "ok " ++ showRows rows)
    | none => (st, "CRASH")
  | _ => (st, "bad-op")

def main : IO Unit := loop ({} : St) step

end BiotiteModel.Driver.C17

import BiotiteModel.Model.C13
/-! Line-protocol driver for C13: one output line per input line (see `harness/props/c13.py`). -/
namespace BiotiteModel.Driver.C13
open BiotiteModel BiotiteModel.C13 BiotiteModel.Proto

/-! ### parsing -/

def parseLoc (s : String) : Option Loc :=
  match s.splitOn ":" with
  | [f, l, st, d] =>
    match f.toInt?, l.toInt?, d.toNat? with
    | some f, some l, some d =>
      if d < 64 then
        match st with
        | "+" => some ⟨f, l, .fwd, Defect.ofNat d⟩
        | "-" => some ⟨f, l, .rev, Defect.ofNat d⟩
        | _ => none
      else none
    | _, _, _ => none
  | _ => none

def parseFeature (s : String) : Option Feature :=
  match s.splitOn "/" with
  | [k, q, ls] =>
    match k.toNat?, q.toNat?, (ls.splitOn ",").mapM parseLoc with
    | some k, some q, some ls => some ⟨k, q, ls.eraseDups⟩   -- `frozenset(locs)`
    | _, _, _ => none
  | _ => none

def parseAnnot (s : String) : Option Annot :=
  if s == "_" then some [] else (s.splitOn ";").mapM parseFeature

def letterCode (c : Char) : Option Nat :=
  let rec go : List Char → Nat → Option Nat
    | [], _ => none
    | x :: xs, i => if x == c then some i else go xs (i + 1)
  go letters 0

def parseSeq (s : String) : Option (List Nat) :=
  if s == "_" then some [] else s.toList.mapM letterCode

def optInt (s : String) : Option (Option Int) :=
  if s == "-" then some none else s.toInt?.map some

/-! ### canonical printing -/

def showSeq (xs : List Nat) : String :=
  if xs.isEmpty then "_" else String.ofList (xs.map fun c => (letters[c]?).getD '?')

def sortDedup (xs : List String) : List String :=
  let sorted := xs.mergeSort (fun a b => !(b < a))
  let rec dd : List String → List String
    | a :: b :: r => if a == b then dd (b :: r) else a :: dd (b :: r)
    | r => r
  dd sorted

def showLoc (l : Loc) : String :=
  s!"{l.first}:{l.last}:{match l.strand with | .fwd => "+" | .rev => "-"}:{l.defect.toNat}"

def showFeature (f : Feature) : String :=
  s!"{f.key}/{f.qual}/{joinWith "," (sortDedup (f.locs.map showLoc))}"

def showAnnot (a : Annot) : String :=
  if a.isEmpty then "_" else joinWith ";" (sortDedup (a.map showFeature))

def showASeq (s : ASeq) : String := s!"{s.start} {showSeq s.seq} {showAnnot s.annot}"

def showErr (e : Err) : String := "ERR:" ++ e.toString

/-- Two different locations on the same span: only then does a WRITE through the feature still depend on
the (unobservable) set iteration order; not modelled. -/
def hasTies (ls : List Loc) : Bool :=
  let rec go : List Loc → Bool
    | [] => false
    | l :: r => r.any (fun l' => l'.first == l.first && l'.last == l.last && l' != l) || go r
  go ls

/-! ### state: heap, current object, optional copy -/

structure St where
  heap : Heap := ⟨[], []⟩
  cur : Option Obj := none
  cp : Option Obj := none
  /-- the result of `keepf`, held by the caller (a value: later writes do not reach it) -/
  kept : List Nat := []

def St.get (st : St) (which : Bool) : Option (Obj × ASeq) :=
  match (if which then st.cp else st.cur) with
  | none => none
  | some o => (st.heap.read o).map fun s => (o, s)

def step (st : St) (line : String) : St × String :=
  match words line with
  | ["new", start, seq, ann] =>
    match start.toInt?, parseSeq seq, parseAnnot ann with
    | some start, some seq, some ann =>
      ({ heap := ⟨[ann], [seq]⟩, cur := some ⟨0, 0, start⟩, cp := none }, "ok")
    | _, _, _ => (st, "bad-op")
  | ["show"] =>
    match st.get false with
    | some (_, s) => (st, "ok " ++ showASeq s)
    | none => (st, "bad-op")
  | ["cp_show"] =>
    match st.get true with
    | some (_, s) => (st, "ok " ++ showASeq s)
    | none => (st, "bad-op")
  | ["aslice", a, b] =>
    match st.get false, optInt a, optInt b with
    | some (_, s), some a, some b =>
      match sliceAnnotE a b s.annot with
      | .ok ann => (st, "ok " ++ showAnnot ann)
      | .error e => (st, showErr e)
    | _, _, _ => (st, "bad-op")
  | ["slice", a, b] =>
    match st.get false, optInt a, optInt b with
    | some (_, s), some a, some b =>
      match getSlice s a b with
      | .ok r => (st, "ok " ++ showASeq r)
      | .error e => (st, showErr e)
    | _, _, _ => (st, "bad-op")
  | ["int", p] =>
    match st.get false, p.toInt? with
    | some (_, s), some p =>
      match getInt s p with
      | .ok c => (st, "ok " ++ showSeq [c])
      | .error e => (st, showErr e)
    | _, _ => (st, "bad-op")
  | ["getf", f] =>
    match st.get false, parseFeature f with
    | some (_, s), some f =>
      match getFeature s f with
      | .ok r => (st, "ok " ++ showSeq r)
      | .error e => (st, showErr e)
    | _, _ => (st, "bad-op")
  | ["keepf", f] =>
    match st.get false, parseFeature f with
    | some (_, s), some f =>
      match getFeature s f with
      | .ok r => ({ st with kept := r }, "ok " ++ showSeq r)
      | .error e => (st, showErr e)
    | _, _ => (st, "bad-op")
  | ["kept"] => (st, "ok " ++ showSeq st.kept)
  | ["setf", f, x] =>
    match st.get false, parseFeature f, parseSeq x with
    | some (o, s), some f, some x =>
      if hasTies f.locs then (st, "unmodelled") else
      let (s', e) := setFeature s f x
      ({ st with heap := st.heap.writeSeq o s'.seq }, match e with | none => "ok" | some e => showErr e)
    | _, _, _ => (st, "bad-op")
  | ["revcomp", k] =>
    match st.get false, (if k == "-" then some (1 : Int) else k.toInt?) with
    | some (_, s), some k =>
      match reverseComplement s k with
      | .ok r =>
        -- the result is a new object; it becomes the current one
        let h := st.heap
        ({ st with heap := ⟨h.annots ++ [r.annot], h.seqs ++ [r.seq]⟩,
                   cur := some ⟨h.annots.length, h.seqs.length, r.start⟩ }, "ok " ++ showASeq r)
      | .error e => (st, showErr e)
    | _, _ => (st, "bad-op")
  | ["copy"] =>
    match st.cur with
    | some o =>
      match st.heap.copyObj copyKinds o with
      | some (h, c) =>
        let eq := decide (h.read c = h.read o)
        ({ st with heap := h, cp := some c }, s!"ok {eq}")
      | none => (st, "ERR:unusable-copy")
    | none => (st, "bad-op")
  | ["cp_setint", p, c] =>
    match st.get true, p.toInt?, parseSeq c with
    | some (o, s), some p, some [c] =>
      match setInt s p c with
      | .ok s' => ({ st with heap := st.heap.writeSeq o s'.seq }, "ok")
      | .error e => (st, showErr e)
    | _, _, _ => (st, "bad-op")
  | ["mkloc", f, l] =>
    match f.toInt?, l.toInt? with
    | some f, some l =>
      match mkLoc f l .fwd Defect.none with
      | .ok _ => (st, "ok")
      | .error e => (st, showErr e)
    | _, _ => (st, "bad-op")
  | ["mkfeat0"] => (st, showErr .valueError)     -- `Feature.__init__`: `len(locs) == 0` raises
  | ["addfeat", f] =>
    match st.get false, parseFeature f with
    | some (o, s), some f => ({ st with heap := st.heap.writeAnnot o (annotAdd s.annot f) }, "ok")
    | _, _ => (st, "bad-op")
  | ["iadd", fs] =>
    match st.get false, parseAnnot fs with
    | some (o, s), some fs => ({ st with heap := st.heap.writeAnnot o (fs.foldl annotAdd s.annot) }, "ok")
    | _, _ => (st, "bad-op")
  | ["delfeat", f] =>
    match st.get false, parseFeature f with
    | some (o, s), some f =>
      match annotDel s.annot f with
      | .ok a => ({ st with heap := st.heap.writeAnnot o a }, "ok")
      | .error e => (st, showErr e)
    | _, _ => (st, "bad-op")
  | ["has", f] =>
    match st.get false, parseFeature f with
    | some (_, s), some f => (st, s!"ok {annotHas s.annot f}")
    | _, _ => (st, "bad-op")
  | ["count"] =>
    match st.get false with
    | some (_, s) => (st, s!"ok {annotCount s.annot}")
    | none => (st, "bad-op")
  | ["range"] =>
    match st.get false with
    | some (_, s) => (st, s!"ok {(annotRange s.annot).1} {(annotRange s.annot).2}")
    | none => (st, "bad-op")
  | ["setslice", a, b, x] =>
    match st.get false, optInt a, optInt b, parseSeq x with
    | some (o, s), some a, some b, some x =>
      match setSlice s a b x with
      | .ok s' => ({ st with heap := st.heap.writeSeq o s'.seq }, "ok")
      | .error e => (st, showErr e)
    | _, _, _, _ => (st, "bad-op")
  | ["setint", p, c] =>
    match st.get false, p.toInt?, parseSeq c with
    | some (o, s), some p, some [c] =>
      match setInt s p c with
      | .ok s' => ({ st with heap := st.heap.writeSeq o s'.seq }, "ok")
      | .error e => (st, showErr e)
    | _, _, _ => (st, "bad-op")
  | [op, v] =>
    -- editing the dictionary handed out by `Feature.qual`: `qualAccess` says what that does to the feature
    if op == "mut_qual" || op == "cp_mut_qual" then
      match st.get (op == "cp_mut_qual"), v.toNat? with
      | some (o, s), some q =>
        ({ st with heap := st.heap.writeAnnot o (s.annot.map (mutQualThrough qualAccess q)) }, "ok")
      | _, _ => (st, "bad-op")
    else if op == "cp_addfeat" then
      match st.get true, parseFeature v with
      | some (o, s), some f => ({ st with heap := st.heap.writeAnnot o (s.annot ++ [f]) }, "ok")
      | _, _ => (st, "bad-op")
    else (st, "bad-op")
  | [op] =>
    if op == "mut_features" || op == "cp_mut_features" then
      match st.get (op == "cp_mut_features") with
      | some (o, s) =>
        ({ st with heap := st.heap.writeAnnot o ((clearThrough featuresAccess s.annot).map (clearLocsThrough locsAccess)) }, "ok")
      | none => (st, "bad-op")
    else (st, "bad-op")
  | ["cp_setf", f, x] =>
    match st.get true, parseFeature f, parseSeq x with
    | some (o, s), some f, some x =>
      if hasTies f.locs then (st, "unmodelled") else
      let (s', e) := setFeature s f x
      ({ st with heap := st.heap.writeSeq o s'.seq }, match e with | none => "ok" | some e => showErr e)
    | _, _, _ => (st, "bad-op")
  | _ => (st, "bad-op")

def main : IO Unit := loop ({} : St) step

end BiotiteModel.Driver.C13

/- REGENERATED on every run by harness/props/c07.py from structure/io/pdb/file.py and hybrid36.pyx. Do not edit. -/
namespace BiotiteModel.Gen.C07
/-- reader column slices `slice(a, b)` -/
def slices : List (String × Nat × Nat) := [("_record", 0, 6), ("_atom_id", 6, 11), ("_atom_name", 12, 16), ("_alt_loc", 16, 17), ("_res_name", 17, 20), ("_chain_id", 21, 22), ("_res_id", 22, 26), ("_ins_code", 26, 27), ("_coord_x", 30, 38), ("_coord_y", 38, 46), ("_coord_z", 46, 54), ("_occupancy", 54, 60), ("_temp_f", 60, 66), ("_element", 76, 78), ("_charge", 78, 80)]
def pdbMaxAtoms : Nat := 99999
def pdbMaxResidues : Nat := 9999
/-- `first_half = …` of set_structure: (variable, justification, width) -/
def firstHalf : List (String × String × Nat) := [("record", "ljust", 6), ("pdb_atom_id", "rjust", 5), ("spaces", "lit", 1), ("names", "ljust", 4), ("spaces", "lit", 1), ("res_names", "rjust", 3), ("spaces", "lit", 1), ("chain_ids", "ljust", 1), ("pdb_res_id", "rjust", 4), ("ins_codes", "rjust", 1)]
def secondHalf : List (String × String × Nat) := [("occupancy", "none", 0), ("b_factor", "none", 0), ("spaces", "lit", 10), ("elements", "rjust", 2), ("charge", "rjust", 2)]
/-- the f-string of one ATOM/HETATM record -/
def atomLine : List (String × String × Nat) := [("start", "ljust", 27), ("lit", "lit", 3), ("x", "rjust", 8), ("y", "rjust", 8), ("z", "rjust", 8), ("end", "ljust", 26)]
def modelLine : List (String × String × Nat) := [("lit", "lit", 10), ("model_num", "rjust", 4)]
/-- format specs (align, width, decimals) used by the writer -/
def coordFmt : String × Nat × Nat := (">", 8, 3)
def bFactorFmt : String × Nat × Nat := (">", 6, 2)
def occupancyFmt : String × Nat × Nat := (">", 6, 2)
/-- `_check_number_columns(values, spec, n_columns, …)` calls of the compatibility check -/
def checkNumbers : List (String × (String × Nat × Nat) × Nat) := [("coord", (">", 8, 3), 8), ("b_factor", (">", 6, 2), 6), ("occupancy", (">", 6, 2), 6)]
/-- `len(x) > K` tests of the compatibility check -/
def checkLengths : List (String × Nat) := [("chain_id", 1), ("res_name", 3), ("atom_name", 4), ("ins_code", 1), ("element", 2)]
def minAtomId : Int := -9999
def minResId : Int := -999
def h36AtomWidth : Nat := 5
def h36ResWidth : Nat := 4
/-- CRYST1: reader slices, the writer's f-string (name, justification, width), decimals, trailing literal, box checks -/
def cryst1Slices : List (String × Nat × Nat) := [("_a", 6, 15), ("_b", 15, 24), ("_c", 24, 33), ("_alpha", 33, 40), ("_beta", 40, 47), ("_gamma", 47, 54), ("_space", 55, 66), ("_z", 66, 70)]
def cryst1Line : List (String × String × Nat) := [("lit", "lit", 6), ("a", "rjust", 9), ("b", "rjust", 9), ("c", "rjust", 9), ("alpha", "rjust", 7), ("beta", "rjust", 7), ("gamma", "rjust", 7), ("lit", "lit", 26)]
def cryst1Decimals : List Nat := [3, 3, 3, 2, 2, 2]
def cryst1Tail : String := " P 1           1          "
def cryst1Check : List ((String × Nat × Nat) × Nat) := [((">", 9, 3), 9), ((">", 7, 2), 7)]
/-- hybrid36.pyx -/
def asciiFirstLetterLower : Nat := 97
def asciiFirstLetterUpper : Nat := 65
def asciiFirstNumber : Nat := 48
def asciiLastLetterLower : Nat := 122
def asciiLastLetterUpper : Nat := 90
def asciiLastNumber : Nat := 57
def radixFactors : List String := ["10", "26", "26-10"]
end BiotiteModel.Gen.C07

/- REGENERATED on every run by harness/props/c04.py from structure/io/pdbx/convert.py, structure/filter.py, structure/bonds.pyx. Do not edit. -/
namespace BiotiteModel.Gen.C04
def bondTypes : List (String × Nat) := [("ANY", 0), ("SINGLE", 1), ("DOUBLE", 2), ("TRIPLE", 3), ("QUADRUPLE", 4), ("AROMATIC_SINGLE", 5), ("AROMATIC_DOUBLE", 6), ("AROMATIC_TRIPLE", 7), ("COORDINATION", 8), ("AROMATIC", 9)]
def typeIdToType : List (String × Nat) := [("covale", 1), ("covale_base", 1), ("covale_phosphate", 1), ("covale_sugar", 1), ("disulf", 1), ("modres", 1), ("modres_link", 1), ("metalc", 8)]
def typeToTypeId : List (Nat × String) := [(0, "covale"), (1, "covale"), (2, "covale"), (3, "covale"), (4, "covale"), (5, "covale"), (6, "covale"), (7, "covale"), (8, "metalc"), (9, "covale")]
def typeToOrder : List (Nat × String) := [(0, ""), (1, "sing"), (2, "doub"), (3, "trip"), (4, "quad"), (5, "sing"), (6, "doub"), (7, "trip"), (8, ""), (9, "")]
def orderToType : List (String × Nat) := [("sing", 1), ("doub", 2), ("trip", 3), ("quad", 4)]
def orderMasked : List Nat := [0, 8, 9]
def compOrderToType : List ((String × String) × Nat) := [(("SING", "N"), 1), (("DOUB", "N"), 2), (("TRIP", "N"), 3), (("QUAD", "N"), 4), (("SING", "Y"), 5), (("DOUB", "Y"), 6), (("TRIP", "Y"), 7), (("AROM", "Y"), 9)]
def canonicalAA : List String := ["ALA", "ARG", "ASN", "ASP", "CYS", "GLN", "GLU", "GLY", "HIS", "ILE", "LEU", "LYS", "MET", "PHE", "PRO", "PYL", "SER", "THR", "TRP", "TYR", "VAL", "SEC"]
def canonicalNuc : List String := ["A", "DA", "G", "DG", "C", "DC", "U", "DT"]
def peptideLinks : List String := ["PEPTIDE LINKING", "L-PEPTIDE LINKING", "D-PEPTIDE LINKING"]
def nucleicLinks : List String := ["RNA LINKING", "DNA LINKING"]
def noAltloc : List String := [".", "?", " ", ""]
/-- `_filter_canonical_links`: shape of the returned expression, number of `&` terms, number of comparison terms, the two atom-name tuples. -/
def canonShape : String := "and-chain"
def canonTerms : Nat := 5
def canonCompareTerms : Nat := 4
/-- (residue list, first atom, second atom) of `is_peptide_link` and `is_nucleotide_link` -/
def canonKinds : List (String × String × String) := [("canonical_aa_list", "C", "N"), ("canonical_nucleotide_list", "O3'", "P")]
def altlocUsesIsalpha : Bool := false
end BiotiteModel.Gen.C04

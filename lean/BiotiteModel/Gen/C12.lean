/- REGENERATED on every run by harness/props/c12.py from sequence/io/{gff/file.py, fastq/file.py, genbank/annotation.py, genbank/sequence.py}. Do not edit. -/
namespace BiotiteModel.Gen.C12
/-- character codes of `_NOT_QUOTED` (gff/file.py), the `safe` argument of `urllib.parse.quote`. -/
def notQuoted : List Nat := [33, 34, 35, 36, 39, 40, 41, 42, 43, 45, 46, 47, 58, 60, 62, 63, 64, 91, 92, 93, 94, 95, 96, 123, 124, 125, 126, 32]
/-- the columns among seqid/source/type that `_create_line` passes through `quote`. -/
def quotedColumns : List String := ["seqid", "source", "type"]
/-- `_OFFSETS` (fastq/file.py): format name ↦ ASCII offset. -/
def fastqOffsets : List (String × Int) := [("Sanger", 33), ("Solexa", 64), ("Illumina-1.3", 64), ("Illumina-1.5", 64), ("Illumina-1.8", 33)]
/-- GenBank column constants. -/
def keyStart : Nat := 5
def qualStart : Nat := 21
def symbolsPerChunk : Nat := 10
def chunksPerLine : Nat := 6
def symbolsPerLine : Nat := 60
end BiotiteModel.Gen.C12

/- REGENERATED on every run by harness/props/c13.py from sequence/annotation.py and sequence/seqtypes.py. Do not edit. -/
namespace BiotiteModel.Gen.C13
/-- `Location.Defect` members in declaration order with their `Flag` values. -/
def defectFlags : List (String × Nat) := [("NONE", 0), ("MISS_LEFT", 1), ("MISS_RIGHT", 2), ("BEYOND_LEFT", 4), ("BEYOND_RIGHT", 8), ("UNK_LOC", 16), ("BETWEEN", 32)]
/-- `Location.Strand` members in declaration order. -/
def strands : List String := ["FORWARD", "REVERSE"]
/-- `reverse_complement`: (flag tested on the location, flag set on the reversed location). -/
def mirrorPairs : List (String × String) := [("MISS_LEFT", "MISS_RIGHT"), ("MISS_RIGHT", "MISS_LEFT"), ("BEYOND_RIGHT", "BEYOND_LEFT"), ("BEYOND_LEFT", "BEYOND_RIGHT"), ("UNK_LOC", "UNK_LOC"), ("BETWEEN", "BETWEEN")]
/-- Attributes assigned in `AnnotatedSequence.__init__`. -/
def initFields : List String := ["_annotation", "_sequence", "_seqstart"]
/-- `__copy_create__`: (field the constructor argument is stored in, attribute of `self` it is built from, how). -/
def copyCreate : List (String × String × String) := [("_annotation", "_annotation", "copyCall"), ("_sequence", "_sequence", "copyCall"), ("_seqstart", "_seqstart", "plain")]
/-- How `__init__` builds each attribute: frozen (frozenset/str/…), mutable (set/dict/list/deepcopy/…), param (stored as given). -/
def fieldKinds : List (String × String × String) := [("Location", "_first", "param"), ("Location", "_last", "param"), ("Location", "_strand", "param"), ("Location", "_defect", "param"), ("Feature", "_key", "param"), ("Feature", "_locs", "frozen"), ("Feature", "_qual", "mutable"), ("Annotation", "_features", "mutable"), ("AnnotatedSequence", "_annotation", "param"), ("AnnotatedSequence", "_sequence", "param"), ("AnnotatedSequence", "_seqstart", "param")]
/-- Properties and `get_*` methods that hand out an attribute: (class, accessor, attribute, plain | copy). -/
def accessors : List (String × String × String × String) := [("Location", "first", "_first", "plain"), ("Location", "last", "_last", "plain"), ("Location", "strand", "_strand", "plain"), ("Location", "defect", "_defect", "plain"), ("Feature", "key", "_key", "plain"), ("Feature", "locs", "_locs", "copy"), ("Feature", "qual", "_qual", "copy"), ("Annotation", "get_features", "_features", "copy"), ("AnnotatedSequence", "sequence_start", "_seqstart", "plain"), ("AnnotatedSequence", "sequence", "_sequence", "plain"), ("AnnotatedSequence", "annotation", "_annotation", "plain")]
/-- `NucleotideSequence.alphabet_unamb` / `alphabet_amb`. -/
def alphabetUnamb : String := "ACGT"
def alphabetAmb : String := "ACGTRYWSMKHBVDN"
/-- `compl_symbol_dict` as a map on codes of `alphabet_amb`. -/
def complCodes : List Nat := [3, 2, 1, 0, 5, 4, 6, 7, 9, 8, 13, 12, 11, 10, 14]
end BiotiteModel.Gen.C13

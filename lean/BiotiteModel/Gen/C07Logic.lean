/- REGENERATED on every run by harness/props/c07.py (gen_logic) from pdb/file.py, pdb/convert.py, filter.py and hybrid36.pyx. Do not edit. -/
namespace BiotiteModel.Gen.C07Logic
def recordNames : List String := ["HETATM", "ATOM"]
def atomWrap : List String := ["id>0", "(id-1)%99999+1", "id"]
def resWrap : List String := ["id>0", "(id-1)%9999+1", "id"]
def defaultTexts : List String := [" ", "  0.00", "  1.00", "  "]
def alignRule : List String := ["len(x0)==1 and len(x1)<4", " {}"]
def chargeText : List String := ["x0>0", "str(np.abs(x0))+'+'", "x0<0", "str(np.abs(x0))+'-'", "''"]
def isStack : String := "coords.shape[0]>1"
def endmdl : String := "ENDMDL"
def carriable : List String := ["np.isin(x0[:,0],x1)", "np.isin(x0[:,1],x1)", "array.res_id[x0[:,0]]!=array.res_id[x0[:,1]]", "array.chain_id[x0[:,0]]!=array.chain_id[x0[:,1]]"]
def heteroIndices : String := "np.where(array.hetero&~filter_solvent(array))[0]"
def int64Casts : List String := ["array.atom_id", "array.get_annotation(x0)"]
def setBondsArgs : List String := ["BondList(array.array_length(),x0)", "x1"]
def solventList : List String := ["HOH", "SOL"]
def conectPerRecord : Nat := 4
def conectParts : List (List String) := [["CONECT", "{>5}"], ["{>5}"]]
def conectRange : List Nat := [11, 31, 5]
def conectSlices : List (List String) := [["6", "11"], ["i", "i+5"]]
def bondMapInit : String := "-1"
def prefixes : List (String × List String) := [("index", ["ATOM|HETATM", "MODEL"]), ("get_structure", ["CRYST1"]), ("get_bonds", ["CONECT"])]
def padWidth : Nat := 80
def heteroTest : List String := ["Eq", "HETATM", "slice(0,6)"]
def chargeSigns : String := "+-"
def chargeBlank : List String := ["Eq", "  ", "0"]
def chargeReversed : String := "::-1"
def altlocModes : List String := ["occupancy", "first", "all"]
def extraFields : List String := ["atom_id", "charge", "occupancy", "b_factor"]
def modelIndex : List String := ["x0==0", "x0<-x1", "x0<x1", "x0==x1"]
def modelRebind : List String := ["x0+x1+1 if x1<0 else x1"]
def modelFilters : List String := ["self.p0<self.p1[x0]", "self.p0>=self.p1[x0-1]"]
def altlocNoneFirst : List String := [".", "?", " ", ""]
def altlocNoneOccupancy : List String := [".", "?", " ", ""]
def altlocBest : List String := ["-1.0", "Gt"]
def altlocIdOrder : String := "sorted(set(ids))"
def checkGuards : List String := ["x0", "'atom_id'in x1", "x2>x3", "(x4.res_id>x5).any()", "not x0", "x6<-9999", "(x4.res_id<-999).any()", "np.isnan(x4.coord).any()", "'b_factor'in x1", "'occupancy'in x1", "x4.box is not None", "len(f'{x7:>9.3f}')>9", "len(f'{x8:>7.2f}')>7", "'charge'in x1", "x9>1"]
def numberCheck : List String := ["not np.isfinite(x0).all()", "x1>x2"]
def raises : List (String × List String) := [("check", ["BadStructureError"]), ("numcheck", ["BadStructureError"]), ("select", ["ValueError"]), ("model_length", ["InvalidFileError"]), ("get_bonds", ["InvalidFileError"]), ("get_structure", ["ValueError"])]
def defaults : List (String × List (String × String)) := [("PDBFile.get_structure", [("model", "None"), ("altloc", "'first'"), ("extra_fields", "[]"), ("include_bonds", "False")]), ("PDBFile.set_structure", [("array", "<required>"), ("hybrid36", "False")]), ("PDBFile.get_coord", [("model", "None")]), ("PDBFile.get_b_factor", [("model", "None")]), ("pdb.get_structure", [("pdb_file", "<required>"), ("model", "None"), ("altloc", "'first'"), ("extra_fields", "[]"), ("include_bonds", "False")]), ("pdb.set_structure", [("pdb_file", "<required>"), ("array", "<required>"), ("hybrid36", "False")])]
def wrapperForwards : List (String × List String) := [("get_structure", ["model", "altloc", "extra_fields", "include_bonds"]), ("set_structure", ["array", "hybrid36"])]
/-- hybrid36.pyx, code lines per function -/
def pyx_encode_hybrid36 : List String := ["def encode_hybrid36(int number, unsigned int length):", "if number < 0:", "raise ValueError(", ")", "if length < 1:", "raise ValueError(", ")", "cdef int num = number", "if num < 10**length:", "return str(num)", "num -= 10**length", "if num < 26 * 36**(length-1):", "num += 10 * 36**(length-1)", "return _encode_base36(num, length, _ASCII_FIRST_LETTER_UPPER)", "num -= 26 * 36**(length-1)", "if num < 26 * 36**(length-1):", "num += 10 * 36**(length-1)", "return _encode_base36(num, length, _ASCII_FIRST_LETTER_LOWER)", "raise ValueError(", ")"]
def pyx_encode_base36 : List String := ["cdef str _encode_base36(int number, unsigned int length,", "unsigned int ascii_letter_offset):", "cdef unsigned char ascii_char", "cdef int remaining", "cdef int last", "cdef bytearray char_array = bytearray(length)", "cdef unsigned char[:] char_array_v = char_array", "cdef int i = char_array_v.shape[0] - 1", "while i >= 0:", "remaining = number // 36", "last = number - remaining * 36", "if last < 10:", "char_array_v[i] = last + _ASCII_FIRST_NUMBER", "else:", "char_array_v[i] = last + ascii_letter_offset - 10", "number = remaining", "i -= 1", "return char_array.decode(\"ascii\")"]
def pyx_decode_hybrid36 : List String := ["def decode_hybrid36(str string):", "cdef int base_value", "cdef unsigned int length", "try:", "return int(string)", "except ValueError:", "pass", "cdef bytes char_array = string.strip().encode(\"ascii\")", "cdef const unsigned char[:] char_array_v = char_array", "length = char_array_v.shape[0]", "if length == 0:", "raise ValueError(", "if char_array_v[0] >= _ASCII_FIRST_LETTER_UPPER \\", "and char_array_v[0] <= _ASCII_LAST_LETTER_UPPER:", "base_value = _decode_base36(", "char_array_v, _ASCII_FIRST_LETTER_UPPER", ")", "return base_value - 10 * 36**(length-1) + 10**length", "elif char_array_v[0] >= _ASCII_FIRST_LETTER_LOWER \\", "and char_array_v[0] <= _ASCII_LAST_LETTER_LOWER:", "base_value = _decode_base36(", "char_array_v, _ASCII_FIRST_LETTER_LOWER", ")", "return base_value + (26-10) * 36**(length-1) + 10**length", "else:", "raise ValueError(", ")"]
def pyx_decode_base36 : List String := ["cdef int _decode_base36(const unsigned char[:] char_array_v,", "unsigned int ascii_letter_offset):", "cdef int i", "cdef int number = 0", "cdef unsigned char ascii_code", "for i in range(char_array_v.shape[0]):", "number *= 36", "ascii_code = char_array_v[i]", "if ascii_code <= _ASCII_LAST_NUMBER:", "number += ascii_code - _ASCII_FIRST_NUMBER", "else:", "number += ascii_code - ascii_letter_offset + 10", "return number"]
def pyx_max_hybrid36_number : List String := ["def max_hybrid36_number(length):", "return 10**length - 1 + 2 * (26 * 36**(length-1))"]
end BiotiteModel.Gen.C07Logic

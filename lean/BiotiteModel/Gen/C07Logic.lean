/- REGENERATED on every run by harness/props/c07.py (gen_logic) from pdb/file.py, pdb/convert.py, filter.py and hybrid36.pyx. Do not edit. -/
namespace BiotiteModel.Gen.C07Logic
def recordNames : List String := ["HETATM", "ATOM"]
def atomWrap : List String := ["id>0", "(id-1)%_PDB_MAX_ATOMS+1", "id"]
def resWrap : List String := ["id>0", "(id-1)%_PDB_MAX_RESIDUES+1", "id"]
def defaultTexts : List String := [" ", "  0.00", "  1.00", "  "]
def alignRule : List String := ["len(elem)==1andlen(atm)<4", " {}"]
def chargeText : List String := ["charge>0", "str(np.abs(charge))+'+'", "charge<0", "str(np.abs(charge))+'-'", "''"]
def isStack : String := "coords.shape[0]>1"
def endmdl : String := "ENDMDL"
def carriable : List String := ["np.isin(bond_array[:,0],hetero_indices)", "np.isin(bond_array[:,1],hetero_indices)", "array.res_id[bond_array[:,0]]!=array.res_id[bond_array[:,1]]", "array.chain_id[bond_array[:,0]]!=array.chain_id[bond_array[:,1]]"]
def heteroIndices : String := "np.where(array.hetero&~filter_solvent(array))[0]"
def int64Casts : List String := ["array.atom_id", "array.get_annotation(category)"]
def setBondsArgs : List String := ["BondList(array.array_length(),bond_array)", "pdb_atom_id"]
def solventList : List String := ["HOH", "SOL"]
def conectPerRecord : Nat := 4
def conectParts : List (List String) := [["CONECT", "{>5}"], ["{>5}"]]
def conectRange : List Nat := [11, 31, 5]
def conectSlices : List (List String) := [["6", "11"], ["i", "i+5"]]
def bondMapInit : String := "-1"
def prefixes : List (String × List String) := [("index", ["ATOM|HETATM", "MODEL"]), ("get_structure", ["CRYST1"]), ("get_bonds", ["CONECT"])]
def padWidth : Nat := 80
def heteroTest : List String := ["Eq", "HETATM"]
def chargeSigns : String := "+-"
def chargeBlank : List String := ["charge=='  '", "0"]
def chargeReversed : String := "::-1"
def altlocModes : List String := ["occupancy", "first", "all"]
def extraFields : List String := ["atom_id", "charge", "occupancy", "b_factor"]
def modelIndex : List String := ["model==0", "model<-last_model", "model<last_model", "model==last_model", "last_model+model+1ifmodel<0elsemodel"]
def modelFilters : List String := ["(self._atom_line_i>=self._model_start_i[model-1])&(self._atom_line_i<self._model_start_i[model])", "self._atom_line_i>=self._model_start_i[model-1]"]
def altlocNoneFirst : List String := [".", "?", " ", ""]
def altlocNoneOccupancy : List String := [".", "?", " ", ""]
def altlocBest : List String := ["-1.0", "Gt:highest"]
def altlocIdOrder : String := "sorted(set(letter_altloc_ids))"
def checkGuards : List String := ["hybrid36", "'atom_id'inannot_categories", "max_atom_id>max_atoms", "(array.res_id>max_residues).any()", "nothybrid36", "np.isnan(array.coord).any()", "any([len(name)>1fornameinarray.chain_id])", "any([len(name)>3fornameinarray.res_name])", "any([len(name)>4fornameinarray.atom_name])", "any([len(code)>1forcodeinarray.ins_code])", "any([len(element)>2forelementinarray.element])", "'b_factor'inannot_categories", "'occupancy'inannot_categories", "array.boxisnotNone", "'charge'inannot_categories", "min_atom_id<-9999", "(array.res_id<-999).any()", "n_charge_digits>1"]
def numberCheck : List String := ["notnp.isfinite(values).all()", "n_required>n_columns"]
def raises : List (String × List String) := [("_check_pdb_compatibility", ["BadStructureError"]), ("_check_number_columns", ["BadStructureError"]), ("_get_atom_record_indices_for_model", ["ValueError"]), ("_get_model_length", ["InvalidFileError"]), ("_get_bonds", ["InvalidFileError"]), ("get_structure", ["ValueError"])]
def defaults : List (String × List (String × String)) := [("PDBFile.get_structure", [("model", "None"), ("altloc", "'first'"), ("extra_fields", "[]"), ("include_bonds", "False")]), ("PDBFile.set_structure", [("array", "<required>"), ("hybrid36", "False")]), ("PDBFile.get_coord", [("model", "None")]), ("PDBFile.get_b_factor", [("model", "None")]), ("pdb.get_structure", [("pdb_file", "<required>"), ("model", "None"), ("altloc", "'first'"), ("extra_fields", "[]"), ("include_bonds", "False")]), ("pdb.set_structure", [("pdb_file", "<required>"), ("array", "<required>"), ("hybrid36", "False")])]
def wrapperForwards : List (String × List String) := [("get_structure", ["model", "altloc", "extra_fields", "include_bonds"]), ("set_structure", ["array", "hybrid36"])]
/-- hybrid36.pyx, code lines per function -/
def pyx_encode_hybrid36 : List String := ["def encode_hybrid36(int number, unsigned int length):", "if number < 0:", "raise ValueError(", ")", "if length < 1:", "raise ValueError(", ")", "cdef int num = number", "if num < 10**length:", "return str(num)", "num -= 10**length", "if num < 26 * 36**(length-1):", "num += 10 * 36**(length-1)", "return _encode_base36(num, length, _ASCII_FIRST_LETTER_UPPER)", "num -= 26 * 36**(length-1)", "if num < 26 * 36**(length-1):", "num += 10 * 36**(length-1)", "return _encode_base36(num, length, _ASCII_FIRST_LETTER_LOWER)", "raise ValueError(", ")"]
def pyx_encode_base36 : List String := ["cdef str _encode_base36(int number, unsigned int length,", "unsigned int ascii_letter_offset):", "cdef unsigned char ascii_char", "cdef int remaining", "cdef int last", "cdef bytearray char_array = bytearray(length)", "cdef unsigned char[:] char_array_v = char_array", "cdef int i = char_array_v.shape[0] - 1", "while i >= 0:", "remaining = number // 36", "last = number - remaining * 36", "if last < 10:", "char_array_v[i] = last + _ASCII_FIRST_NUMBER", "else:", "char_array_v[i] = last + ascii_letter_offset - 10", "number = remaining", "i -= 1", "return char_array.decode(\"ascii\")"]
def pyx_decode_hybrid36 : List String := ["def decode_hybrid36(str string):", "cdef int base_value", "cdef unsigned int length", "try:", "return int(string)", "except ValueError:", "pass", "cdef bytes char_array = string.strip().encode(\"ascii\")", "cdef const unsigned char[:] char_array_v = char_array", "length = char_array_v.shape[0]", "if length == 0:", "raise ValueError(\"Cannot parse empty string into integer\")", "if char_array_v[0] >= _ASCII_FIRST_LETTER_UPPER \\", "and char_array_v[0] <= _ASCII_LAST_LETTER_UPPER:", "base_value = _decode_base36(", "char_array_v, _ASCII_FIRST_LETTER_UPPER", ")", "return base_value - 10 * 36**(length-1) + 10**length", "elif char_array_v[0] >= _ASCII_FIRST_LETTER_LOWER \\", "and char_array_v[0] <= _ASCII_LAST_LETTER_LOWER:", "base_value = _decode_base36(", "char_array_v, _ASCII_FIRST_LETTER_LOWER", ")", "return base_value + (26-10) * 36**(length-1) + 10**length", "else:", "raise ValueError(", ")"]
def pyx_decode_base36 : List String := ["cdef int _decode_base36(const unsigned char[:] char_array_v,", "unsigned int ascii_letter_offset):", "cdef int i", "cdef int number = 0", "cdef unsigned char ascii_code", "for i in range(char_array_v.shape[0]):", "number *= 36", "ascii_code = char_array_v[i]", "if ascii_code <= _ASCII_LAST_NUMBER:", "number += ascii_code - _ASCII_FIRST_NUMBER", "else:", "number += ascii_code - ascii_letter_offset + 10", "return number"]
def pyx_max_hybrid36_number : List String := ["def max_hybrid36_number(length):", "return 10**length - 1 + 2 * (26 * 36**(length-1))"]
end BiotiteModel.Gen.C07Logic

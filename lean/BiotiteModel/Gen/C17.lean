/- REGENERATED on every run by harness/props/c17.py from structure/residues.py, chains.py, segments.py. Do not edit. -/
namespace BiotiteModel.Gen.C17
/-- annotations whose change masks are OR-ed in `get_residue_starts`. -/
def residueFields : List String := ["chain_id", "res_id", "ins_code", "res_name"]
/-- operands of the mask union in `get_chain_starts` (`decrease:<annotation>` for `X[1:] < X[:-1]`, `diff:<annotation>:<op>:<bound>` for a test on np.diff). -/
def chainTerms : List String := ["decrease:res_id", "chain_id"]
/-- (without, with exclusive stop) returned for an empty array by get_residue_starts / get_chain_starts. -/
def emptyReturns : List (List Nat × List Nat) := [([], [0]), ([], [0])]
/-- (function, side of np.searchsorted, subtracted constant). -/
def searchSides : List (String × String × String) := [("get_segment_masks", "right", "1"), ("get_segment_starts_for", "right", "1"), ("get_segment_positions", "right", "1")]
/-- index guards: (function, [(condition, exception)]). -/
def guards : List (String × List (String × String)) := [("get_segment_masks", [("Lt 0", "ValueError"), ("GtE starts[-1]", "ValueError")]), ("get_segment_starts_for", [("Lt 0", "ValueError"), ("GtE starts[-1]", "ValueError")]), ("get_segment_positions", [("Lt 0", "ValueError"), ("GtE starts[-1]", "ValueError")])]
/-- every place in molecules.py that looks at a bond type (BondType members, the type column, bond removal). -/
def moleculeBondTypeRefs : List String := []
/-- every mention of bond types in bonds.pyx find_connected / _find_connected. -/
def connectedBondTypeRefs : List String := []
end BiotiteModel.Gen.C17

/- REGENERATED on every run by harness/props/c17.py from structure/residues.py, chains.py, segments.py. Do not edit. -/
namespace BiotiteModel.Gen.C17
/-- annotations whose change masks are OR-ed in `get_residue_starts`. -/
def residueFields : List String := ["chain_id", "res_id", "ins_code", "res_name"]
/-- operands of the mask union in `get_chain_starts` (`diff:<annotation>:<op>:<bound>` for the np.diff test). -/
def chainTerms : List String := ["diff:res_id:Lt:0", "chain_id"]
/-- value returned for an empty array by get_residue_starts / get_chain_starts. -/
def emptyReturns : List String := ["np.array([0] if add_exclusive_stop else [], dtype=int)", "np.array([0] if add_exclusive_stop else [], dtype=int)"]
/-- (function, side of np.searchsorted, subtracted constant). -/
def searchSides : List (String × String × String) := [("get_segment_masks", "right", "1"), ("get_segment_starts_for", "right", "1"), ("get_segment_positions", "right", "1")]
/-- index guards: (function, [(condition, exception)]). -/
def guards : List (String × List (String × String)) := [("get_segment_masks", [("(indices < 0).any()", "ValueError"), ("(indices >= length).any()", "ValueError")]), ("get_segment_starts_for", [("(indices < 0).any()", "ValueError"), ("(indices >= length).any()", "ValueError")]), ("get_segment_positions", [("(indices < 0).any()", "ValueError"), ("(indices >= length).any()", "ValueError")])]
end BiotiteModel.Gen.C17

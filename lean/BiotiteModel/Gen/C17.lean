/- REGENERATED on every run by harness/props/c17.py from structure/residues.py, chains.py, segments.py. Do not edit. -/
namespace BiotiteModel.Gen.C17
/-- annotations whose change masks are OR-ed in `get_residue_starts`. -/
def residueFields : List String := ["chain_id", "res_id", "ins_code", "res_name"]
/-- operands of the mask union in `get_chain_starts` (`decrease:<annotation>` for `X[1:] < X[:-1]`, `diff:<annotation>:<op>:<bound>` for a test on np.diff). -/
def chainTerms : List String := ["decrease:res_id", "chain_id"]
/-- (without, with exclusive stop) returned for an empty array by get_residue_starts / get_chain_starts. -/
def emptyReturns : List (List Nat × List Nat) := [([], [0]), ([], [0])]
/-- (function, side of np.searchsorted, subtracted constant). -/
def searchSides : List (String × String × String) := [("get_segment_masks", "right", "1"), ("get_segment_starts_for", "right", "1"), ("get_segment_positions", "right", "1")]
/-- index guards: (function, [(condition, exception)]). -/
def guards : List (String × List (String × String)) := [("get_segment_masks", [("Lt 0", "ValueError"), ("GtE starts[-1]", "ValueError")]), ("get_segment_starts_for", [("Lt 0", "ValueError"), ("GtE starts[-1]", "ValueError")]), ("get_segment_positions", [("Lt 0", "ValueError"), ("GtE starts[-1]", "ValueError")])]
/-- every place in molecules.py that looks at a bond type (BondType members, the type column, bond removal). -/
def moleculeBondTypeRefs : List String := []
/-- every mention of bond types in bonds.pyx find_connected / _find_connected. -/
def connectedBondTypeRefs : List String := []
/-- sub-extractions that did not recognise the shape of the source (their tables hold sentinels). -/
def extractProblems : List String := []
/-- module-level assignments next to the modelled functions, other than dunders and message-only texts. -/
def moduleState : List String := []
/-- signatures (parameter order and default values) of the anchored public functions. -/
def signatures : List String := ["get_residue_starts(array, add_exclusive_stop=False)", "apply_residue_wise(array, data, function, axis=None)", "spread_residue_wise(array, input_data)", "get_residue_masks(array, indices)", "get_residue_starts_for(array, indices)", "get_residue_positions(array, indices)", "get_residues(array)", "get_residue_count(array)", "residue_iter(array)", "get_chain_starts(array, add_exclusive_stop=False)", "apply_chain_wise(array, data, function, axis=None)", "spread_chain_wise(array, input_data)", "get_chain_masks(array, indices)", "get_chain_starts_for(array, indices)", "get_chain_positions(array, indices)", "get_chains(array)", "get_chain_count(array)", "chain_iter(array)", "apply_segment_wise(starts, data, function, axis=None)", "spread_segment_wise(starts, input_data)", "get_segment_masks(starts, indices)", "get_segment_starts_for(starts, indices)", "get_segment_positions(starts, indices)", "segment_iter(array, starts)", "get_molecule_indices(array)", "get_molecule_masks(array)", "molecule_iter(array)", "find_connected(bond_list, uint32 root, bint as_mask=False)"]
/-- (function, first start, index into np.where(..), offset added, expression of the exclusive stop). -/
def startsBuild : List (String × Nat × Nat × Nat × String) := [("get_residue_starts", 0, 0, 1, "[array.array_length()]"), ("get_chain_starts", 0, 0, 1, "[array.array_length()]")]
/-- normalised bodies of the modelled .py functions (locals alpha-renamed, messages dropped). -/
def pyBodies : List (String × List String) := [
  ("get_residue_starts", ["if array.array_length() == 0:", "    return np.array([0] if add_exclusive_stop else [], dtype=int)", "v0 = array.chain_id[1:] != array.chain_id[:-1]", "v1 = array.res_id[1:] != array.res_id[:-1]", "v2 = array.ins_code[1:] != array.ins_code[:-1]", "v3 = array.res_name[1:] != array.res_name[:-1]", "v4 = v0 | v1 | v2 | v3", "v5 = np.where(v4)[0] + 1", "if add_exclusive_stop:", "    return np.concatenate(([0], v5, [array.array_length()]))", "else:", "    return np.concatenate(([0], v5))"]),
  ("apply_residue_wise", ["v0 = get_residue_starts(array, add_exclusive_stop=True)", "return apply_segment_wise(v0, data, function, axis)"]),
  ("spread_residue_wise", ["v0 = get_residue_starts(array, add_exclusive_stop=True)", "return spread_segment_wise(v0, input_data)"]),
  ("get_residue_masks", ["v0 = get_residue_starts(array, add_exclusive_stop=True)", "return get_segment_masks(v0, indices)"]),
  ("get_residue_starts_for", ["v0 = get_residue_starts(array, add_exclusive_stop=True)", "return get_segment_starts_for(v0, indices)"]),
  ("get_residue_positions", ["v0 = get_residue_starts(array, add_exclusive_stop=True)", "return get_segment_positions(v0, indices)"]),
  ("get_residues", ["v0 = get_residue_starts(array)", "return (array.res_id[v0], array.res_name[v0])"]),
  ("get_residue_count", ["return len(get_residue_starts(array))"]),
  ("residue_iter", ["v0 = get_residue_starts(array, add_exclusive_stop=True)", "for v1 in segment_iter(array, v0):", "    yield v1"]),
  ("get_chain_starts", ["if array.array_length() == 0:", "    return np.array([0] if add_exclusive_stop else [], dtype=int)", "v0 = array.res_id[1:] < array.res_id[:-1]", "v1 = array.chain_id[1:] != array.chain_id[:-1]", "v2 = np.where(v0 | v1)[0] + 1", "if add_exclusive_stop:", "    return np.concatenate(([0], v2, [array.array_length()]))", "else:", "    return np.concatenate(([0], v2))"]),
  ("apply_chain_wise", ["v0 = get_chain_starts(array, add_exclusive_stop=True)", "return apply_segment_wise(v0, data, function, axis)"]),
  ("spread_chain_wise", ["v0 = get_chain_starts(array, add_exclusive_stop=True)", "return spread_segment_wise(v0, input_data)"]),
  ("get_chain_masks", ["v0 = get_chain_starts(array, add_exclusive_stop=True)", "return get_segment_masks(v0, indices)"]),
  ("get_chain_starts_for", ["v0 = get_chain_starts(array, add_exclusive_stop=True)", "return get_segment_starts_for(v0, indices)"]),
  ("get_chain_positions", ["v0 = get_chain_starts(array, add_exclusive_stop=True)", "return get_segment_positions(v0, indices)"]),
  ("get_chains", ["return array.chain_id[get_chain_starts(array)]"]),
  ("get_chain_count", ["return len(get_chain_starts(array))"]),
  ("chain_iter", ["v0 = get_chain_starts(array, add_exclusive_stop=True)", "for v1 in segment_iter(array, v0):", "    yield v1"]),
  ("apply_segment_wise", ["v0 = None", "for v1 in range(len(starts) - 1):", "    v2 = data[starts[v1]:starts[v1 + 1]]", "    if axis is None:", "        v3 = function(v2)", "    else:", "        v3 = function(v2, axis=axis)", "    if v0 is None:", "        if isinstance(v3, np.ndarray):", "            v0 = np.zeros((len(starts) - 1,) + v3.shape, dtype=v3.dtype)", "        else:", "            v0 = np.zeros(len(starts) - 1, dtype=type(v3))", "    v0[v1] = v3", "if v0 is None:", "    return np.zeros(0)", "return v0"]),
  ("spread_segment_wise", ["v0 = starts[1:] - starts[:-1]", "return np.repeat(input_data, v0, axis=0)"]),
  ("get_segment_masks", ["v0 = np.asarray(indices)", "v1 = starts[-1]", "v2 = np.zeros((len(v0), v1), dtype=bool)", "if np.any(v0 < 0):", "    raise ValueError", "if np.any(v0 >= v1):", "    v3 = np.min(np.where(v0 >= v1)[0])", "    raise ValueError", "v4 = np.searchsorted(starts, v0, side='right') - 1", "for v5, v6 in enumerate(v4):", "    v2[v5, starts[v6]:starts[v6 + 1]] = True", "return v2"]),
  ("get_segment_starts_for", ["v0 = np.asarray(indices)", "v1 = starts[-1]", "v2 = starts[:-1]", "if np.any(v0 < 0):", "    raise ValueError", "if np.any(v0 >= v1):", "    v3 = np.min(np.where(v0 >= v1)[0])", "    raise ValueError", "v4 = np.searchsorted(v2, v0, side='right') - 1", "return v2[v4]"]),
  ("get_segment_positions", ["v0 = np.asarray(indices)", "v1 = starts[-1]", "v2 = starts[:-1]", "if np.any(v0 < 0):", "    raise ValueError", "if np.any(v0 >= v1):", "    v3 = np.min(np.where(v0 >= v1)[0])", "    raise ValueError", "return np.searchsorted(v2, v0, side='right') - 1"]),
  ("segment_iter", ["for v0 in range(len(starts) - 1):", "    yield array[..., starts[v0]:starts[v0 + 1]]"]),
  ("get_molecule_indices", ["if isinstance(array, BondList):", "    v0 = array", "elif isinstance(array, (AtomArray, AtomArrayStack)):", "    if array.bonds is None:", "        raise ValueError", "    v0 = array.bonds", "else:", "    raise TypeError", "v1 = []", "v2 = np.zeros(v0.get_atom_count(), dtype=bool)", "while not np.all(v2):", "    v3 = np.argmin(v2)", "    v4 = find_connected(v0, v3)", "    v2[v4] = True", "    v1.append(v4)", "return v1"]),
  ("get_molecule_masks", ["if isinstance(array, BondList):", "    v0 = array", "elif isinstance(array, (AtomArray, AtomArrayStack)):", "    if array.bonds is None:", "        raise ValueError", "    v0 = array.bonds", "else:", "    raise TypeError", "v1 = get_molecule_indices(v0)", "v2 = np.zeros((len(v1), v0.get_atom_count()), dtype=bool)", "for v3 in range(len(v1)):", "    v2[v3, v1[v3]] = True", "return v2"]),
  ("molecule_iter", ["if array.bonds is None:", "    raise ValueError", "v0 = array.bonds", "v1 = np.zeros(v0.get_atom_count(), dtype=bool)", "while not np.all(v1):", "    v2 = np.argmin(v1)", "    v3 = find_connected(v0, v2)", "    v1[v3] = True", "    yield array[..., v3]"])]
/-- code lines of the modelled bonds.pyx functions (comments / docstrings dropped). -/
def pyxBodies : List (String × List String) := [
  ("find_connected", ["def find_connected(bond_list, uint32 root, bint as_mask=False):", "all_bonds, _ = bond_list.get_all_bonds()", "if root >= bond_list.get_atom_count():", "raise ValueError(", "f\"Root atom index {root} is out of bounds for bond list \"", "f\"representing {bond_list.get_atom_count()} atoms\"", ")", "cdef uint8[:] is_connected_mask = np.zeros(", "bond_list.get_atom_count(), dtype=np.uint8", ")", "_find_connected(bond_list, root, is_connected_mask, all_bonds)", "if as_mask:", "return is_connected_mask", "else:", "return np.where(np.asarray(is_connected_mask))[0]"]),
  ("_find_connected", ["cdef _find_connected(bond_list,", "int32 index,", "uint8[:] is_connected_mask,", "int32[:,:] all_bonds):", "if is_connected_mask[index]:", "return", "is_connected_mask[index] = True", "cdef int32 j", "cdef int32 connected_index", "for j in range(all_bonds.shape[1]):", "connected_index = all_bonds[index, j]", "if connected_index == -1:", "continue", "_find_connected(", "bond_list, connected_index, is_connected_mask, all_bonds", ")"]),
  ("BondList.get_all_bonds", ["def get_all_bonds(self):", "cdef int i=0", "cdef uint32 atom_index_i, atom_index_j, bond_type", "cdef uint32[:,:] all_bonds_v = self._bonds", "cdef np.ndarray bonds = np.full(", "(self._atom_count, self._max_bonds_per_atom), -1, dtype=np.int32", ")", "cdef int32[:,:] bonds_v = bonds", "cdef np.ndarray bond_types = np.full(", "(self._atom_count, self._max_bonds_per_atom), -1, dtype=np.int8", ")", "cdef int8[:,:] bond_types_v = bond_types", "cdef np.ndarray lengths = np.zeros(self._atom_count, dtype=np.uint32)", "cdef uint32[:] lengths_v = lengths", "for i in range(all_bonds_v.shape[0]):", "atom_index_i = all_bonds_v[i,0]", "atom_index_j = all_bonds_v[i,1]", "bond_type = all_bonds_v[i,2]", "bonds_v[atom_index_i, lengths_v[atom_index_i]] = atom_index_j", "bonds_v[atom_index_j, lengths_v[atom_index_j]] = atom_index_i", "bond_types_v[atom_index_i, lengths_v[atom_index_i]] = bond_type", "bond_types_v[atom_index_j, lengths_v[atom_index_j]] = bond_type", "lengths_v[atom_index_i] += 1", "lengths_v[atom_index_j] += 1", "return bonds, bond_types"])]
end BiotiteModel.Gen.C17

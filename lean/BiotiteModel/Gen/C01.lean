/- REGENERATED on every run by harness/props/c01.py from structure/atoms.py. Do not edit. -/
namespace BiotiteModel.Gen.C01
/-- attributes assigned in `_AtomArrayBase.__init__` -/
def initFields : List String := ["_annot", "_array_length", "_coord", "_bonds", "_box"]
/-- (attribute of `clone` assigned in `__copy_fill__`/`_copy_annotations`, right-hand side is a `.copy(...)` call) -/
def copiedFields : List (String × Bool) := [("_coord", true), ("_annot", true), ("_box", true), ("_bonds", true)]
/-- `__copy_create__`: (class, constructor called, arguments) -/
def copyCreate : List (String × String × List String) := [("AtomArray", "AtomArray", ["array_length()"]), ("AtomArrayStack", "AtomArrayStack", ["stack_depth()", "array_length()"])]
/-- attributes re-assigned by `AtomArrayStack.__delitem__` -/
def delModelFields : List String := ["_coord", "_box"]
/-- attributes re-assigned by `_AtomArrayBase._del_element` -/
def delAtomFields : List String := ["_coord", "_array_length", "_annot", "_bonds"]
/-- attributes of the new object assigned by `_subarray` -/
def subarrayFields : List String := ["_coord", "_bonds", "_box", "_annot"]
/-- mandatory annotation categories created by `__init__` -/
def mandatory : List String := ["chain_id", "res_id", "ins_code", "res_name", "hetero", "atom_name", "element"]
/-- (category, dtype given to `add_annotation` in `__init__`) -/
def mandatoryDtypes : List (String × String) := [("chain_id", "U4"), ("res_id", "int"), ("ins_code", "U1"), ("res_name", "U5"), ("hetero", "bool"), ("atom_name", "U6"), ("element", "U2")]
end BiotiteModel.Gen.C01

/- REGENERATED on every run by harness/props/c19.py from sequence/phylo/tree.pyx and nj.pyx. Do not edit. -/
namespace BiotiteModel.Gen.C19
/-- `illegal_chars` of `TreeNode.to_newick` (code points). -/
def illegalChars : List Nat := [44, 58, 59, 40, 41]
/-- Code points Python's `str.isspace` accepts (what `str.split()`/`strip()` remove), from the running interpreter. -/
def whitespace : List Nat := [9, 10, 11, 12, 13, 28, 29, 30, 31, 32, 133, 160, 5760, 8192, 8193, 8194, 8195, 8196, 8197, 8198, 8199, 8200, 8201, 8202, 8232, 8233, 8239, 8287, 12288]
/-- `neighbor_joining` raises ValueError below this many rows. -/
def njMinNodes : Nat := 4
end BiotiteModel.Gen.C19

/- REGENERATED on every run by harness/props/c19.py from sequence/phylo/tree.pyx and nj.pyx. Do not edit. -/
namespace BiotiteModel.Gen.C19
/-- `illegal_chars` of `TreeNode.to_newick` (code points). -/
def illegalChars : List Nat := [44, 58, 59, 40, 41]
/-- `neighbor_joining` raises ValueError below this many rows. -/
def njMinNodes : Nat := 4
end BiotiteModel.Gen.C19

/- REGENERATED on every run by harness/props/c16.py from structure/superimpose.py. Do not edit. -/
namespace BiotiteModel.Gen.C16
/-- `_get_rotation_matrices`: comparison and constant of the reflection test on `det(v)*det(w)`. -/
def reflectCmp : String := "Lt"
def reflectConst : Int := 0
/-- position (in the svd result tuple) of the matrix whose column is flipped, the column index, the factor. -/
def flipMatrixPos : Nat := 0
def flipColumn : Int := -1
def flipFactor : Int := -1
/-- svd result positions multiplied, in order. -/
def productOrder : List Nat := [0, 2]
/-- `as_matrix`: attributes in the order of the (left-nested) product and the block each one is assigned to. -/
def matrixOrder : List String := ["target_translation", "rotation", "center_translation"]
def matrixBlocks : List String := ["(:,:3,3)", "(:,:3,:3)", "(:,:3,3)"]
/-- `apply`: the three array operations in order. -/
def applySteps : List String := ["add:center_translation", "matmul:rotation", "add:target_translation"]
/-- `superimpose`: arguments of the `AffineTransformation` it returns. -/
def ctorArgs : List String := ["-mobile", "fixed+mobile", "fixed"]
/-- `superimpose_without_outliers`: comparisons and defaults. -/
def inlierCmp : String := "LtE"
def minAnchorsCmp : String := "Lt"
def maxIterCmp : String := "Lt"
def maxIterConst : Int := 1
def returnedAnchors : String := "fitted-mask"
def defaultMinAnchors : Nat := 3
def defaultMaxIterations : Nat := 10
def defaultQuantiles : List (Int × Nat) := [((1 : Int), (4 : Nat)), ((3 : Int), (4 : Nat))]
def defaultThreshold : Int × Nat := ((3 : Int), (2 : Nat))
end BiotiteModel.Gen.C16

/- REGENERATED on every run by harness/props/c16.py from structure/superimpose.py. Do not edit. -/
namespace BiotiteModel.Gen.C16
/-- `_get_rotation_matrices`: comparison and constant of the reflection test on `det(v)*det(w)`. -/
def reflectCmp : String := "Lt"
def reflectConst : Int := 0
/-- position (in the svd result tuple) of the matrix whose column is flipped, the column index, the factor. -/
def flipMatrixPos : Nat := 0
def flipColumn : Int := -1
def flipFactor : Int := -1
/-- svd result positions multiplied, in order. -/
def productOrder : List Nat := [0, 2]
/-- `as_matrix`: attributes in the order of the (left-nested) product and the block each one is assigned to. -/
def matrixOrder : List String := ["target_translation", "rotation", "center_translation"]
def matrixBlocks : List String := ["(:,:3,3)", "(:,:3,:3)", "(:,:3,3)"]
/-- `apply`: the three array operations in order. -/
def applySteps : List String := ["add:center_translation", "matmul:rotation", "add:target_translation"]
/-- `superimpose`: arguments of the `AffineTransformation` it returns. -/
def ctorArgs : List String := ["-mobile", "fixed+mobile", "fixed"]
/-- `superimpose_without_outliers`: comparisons and defaults. -/
def inlierCmp : String := "LtE"
def minAnchorsCmp : String := "Lt"
def maxIterCmp : String := "Lt"
def maxIterConst : Int := 1
def returnedAnchors : String := "fitted-mask"
def defaultMinAnchors : Nat := 3
def defaultMaxIterations : Nat := 10
def defaultQuantiles : List (Int × Nat) := [((1 : Int), (4 : Nat)), ((3 : Int), (4 : Nat))]
def defaultThreshold : Int × Nat := ((3 : Int), (2 : Nat))
/-- constructor parameters (the adapter passes them positionally) and `attr := _expand_dims(param, n)`. -/
def ctorParams : List String := ["center_translation", "rotation", "target_translation"]
def ctorStores : List (String × String × Nat) := [("center_translation", "center_translation", 2), ("rotation", "rotation", 3), ("target_translation", "target_translation", 2)]
def expandDims : String := "prepend-axes-while-ndim<n"
/-- `apply`: `if mobile_coord.shape[0] <cmp> self.<attr>.shape[0]: raise <exc>`; works on a copy; reshapes back. -/
def applyGuard : List String := ["NotEq", "rotation", "IndexError"]
def applyCopiesInput : Bool := true
def applyReshapesBack : Bool := true
def applyInput : List String := ["coord(atoms)", "RESHAPE3D(mobile_coord)"]
/-- `_reshape_to_3d`: what happens for ndim = 0..5 (semantic table, independent of the order of the tests). -/
def reshapeLadder : List String := ["0:raise:ValueError", "1:raise:ValueError", "2:newaxis", "3:identity", "4:raise:ValueError", "5:raise:ValueError"]
/-- `as_matrix`: identity size, source of the model count; `_3d_identity`: dtype of the zeros, diagonal value 1. -/
def matrixSize : Nat := 4
def matrixCount : String := "self.rotation.shape[0]"
def identityDtype : String := "float"
/-- `superimpose`: signature, mask application, what the centroids are taken of, centring, rotation arguments, result. -/
def supParams : List String := ["fixed", "mobile", "atom_mask"]
def supDefaults : List (String × String) := [("atom_mask", "None")]
def supMaskSlice : String := "[:,atom_mask,:]"
def supCentroidOf : List String := ["filtered-fixed", "filtered-mobile"]
def supCentred : List String := ["fixed", "mobile"]
def supRotationArgs : List String := ["fixed", "mobile"]
def supReturn : String := "(transform.apply(mobile),transform)"
/-- `_get_rotation_matrices(fixed, mobile)`: `cov = np.sum(p0[..newaxis@i] * p1[..newaxis@j], axis=k)` handed directly to svd. -/
def rotParams : List String := ["fixed", "mobile"]
def covFactors : List String := ["0@3", "1@2"]
def covAxis : Int := 1
def covDirectlyToSvd : Bool := true
def multiMatmul : String := "transpose(matmul(matrices, transpose(vectors,(0,2,1))),(0,2,1))"
/-- `superimpose_without_outliers`: signature, first guard, loop, squared distance, mean over models, quantiles, bound, exits, result. -/
def wooParams : List String := ["fixed", "mobile", "min_anchors", "max_iterations", "quantiles", "outlier_threshold"]
def wooFirstGuard : List String := ["max_iterations<1", "ValueError"]
def wooQuantilePrep : String := "sorted(quantiles)"
def wooInitialMask : String := "np.ones(coord(fixed).shape[-2],dtype=bool)"
def wooLoop : String := "range(max_iterations)"
def wooInnerFit : List String := ["coord(fixed)", "coord(mobile)"]
def wooSqDist : List String := ["distance", "coord(fixed)", "superimposed", "**2"]
def wooMeanOverModels : List String := ["Eq", "2", "np.mean", "axis=0"]
def wooQuantileCall : List String := ["SQ_DIST", "quantiles"]
def wooIprIsSecondMinusFirst : Bool := true
def wooBreaks : List String := ["all", "min_anchors"]
def wooReturn : String := "(transform.apply(mobile),transform,anchor_indices)"
/-- `superimpose_homologs`: signature + defaults, raising guards in order, fallback test, alignment columns, forwarded arguments. -/
def homParams : List String := ["fixed", "mobile", "substitution_matrix", "gap_penalty", "min_anchors", "terminal_penalty", "**kwargs"]
def homDefaults : List (String × String) := [("substitution_matrix", "None"), ("gap_penalty", "-10"), ("min_anchors", "3"), ("terminal_penalty", "False")]
def homGuards : List String := ["Or:len(BACKBONE_fixed) Lt min_anchors,len(BACKBONE_mobile) Lt min_anchors:ValueError", "len(BACKBONE_fixed) NotEq len(BACKBONE_mobile):ValueError"]
def homFallbackTest : List String := ["len(MATCHED)", "Lt", "min_anchors"]
def homColumns : List (String × String) := [("BACKBONE_fixed", "MATCHED[:,0]"), ("BACKBONE_mobile", "MATCHED[:,1]")]
def homWooArgs : List String := ["min_anchors", "**kwargs"]
def backboneAtoms : List String := ["filter_amino_acids:CA", "filter_nucleotides:P"]
/-- `_find_matching_anchors`: column c of the anchors is offset by a counter advanced by the length of the sequence
    of zip position p (`c<-p`), counters start at 0, zip is strict, only positively scoring columns, one alignment. -/
def anchorOffsetIncrements : List String := ["0<-0", "1<-1"]
def anchorOffsetStart : List Int := [0, 0]
def chainZip : List String := ["strict=True"]
def scoreFilter : List String := ["Gt", "0"]
def alignKeywords : List String := ["max_number=1", "terminal_penalty=terminal_penalty"]
def alignArgs : List String := ["0", "1", "substitution_matrix", "gap_penalty"]
/-- `rmsd`, `_sq_euclidian` (compare.py) and `centroid` (geometry.py). -/
def rmsdExpr : String := "np.sqrt(np.mean(SQ_EUCLID(reference,subject),axis=-1))"
def sqEuclidGuard : List String := ["coord(reference).ndim!=2", "TypeError"]
def sqEuclidDiff : String := "coord(subject)-coord(reference)"
def centroidExpr : String := "np.mean(coord(atoms),axis=-2)"
end BiotiteModel.Gen.C16

/- REGENERATED on every run by harness/props/c18.py from structure/io/mol/ctab.py, interface/rdkit/mol.py and
   structure/bonds.pyx (BondType values).  Do not edit. -/
namespace BiotiteModel.Gen.C18
/-- `BondType` members used below: (name, value). -/
def bondTypeEnum : List (String × Nat) := [("ANY", 0), ("SINGLE", 1), ("DOUBLE", 2), ("TRIPLE", 3), ("QUADRUPLE", 4), ("AROMATIC_SINGLE", 5), ("AROMATIC_DOUBLE", 6), ("AROMATIC_TRIPLE", 7), ("COORDINATION", 8), ("AROMATIC", 9)]
/-- `BOND_TYPE_MAPPING` in source order: (CTAB code, BondType value). -/
def bondTypeMapping : List (Int × Nat) := [(1, 1), (2, 2), (3, 3), (4, 9), (5, 0), (6, 5), (7, 6), (8, 0)]
/-- `CHARGE_MAPPING` in source order: (atom block code, charge). -/
def chargeMapping : List (Int × Int) := [(0, 0), (1, 3), (2, 2), (3, 1), (5, -1), (6, -2), (7, -3)]
def nChargesPerLine : Nat := 8
/-- `_is_v2000_compatible`: exclusive upper bounds for (n_atoms, n_bonds). -/
def v2000Bounds : Nat × Nat := (1000, 1000)
/-- `n_coord_digits > k` guards of the V2000 and the V3000 writer. -/
def coordDigitLimits : List Nat := [5, 5]
/-- constant slices `line[a:b]` of `_read_structure_from_ctab_v2000` (atom line, then charge prefix, then bond line). -/
def readerSlices : List (Nat × Nat) := [(0, 10), (10, 20), (20, 30), (31, 34), (36, 39), (6, 9), (0, 3), (3, 6)]
def countsSlices : List (Nat × Nat) := [(0, 3), (3, 6)]
def versionSlice : List (Nat × Nat) := [(33, 39)]
/-- field widths of the f-string templates of `_write_structure_to_ctab_v2000` (alignment, width). -/
def atomLineWidths : List (String × Nat) := [(">", 10), (">", 10), (">", 10), ("lit", 1), ("<", 3), (">", 2), (">", 3), (">", 3), (">", 3), (">", 3), (">", 3), (">", 3), (">", 3), (">", 3), (">", 3), (">", 3), (">", 3)]
def bondLineWidths : List (String × Nat) := [(">", 3), (">", 3), (">", 3), (">", 3), (">", 3), (">", 3), (">", 3)]
def countsLineWidths : List (String × Nat) := [(">", 3), (">", 3), ("lit", 33)]
/-- `_BIOTITE_TO_RDKIT_BOND_TYPE`: (BondType value, Chem.BondType member). -/
def toRdkit : List (Nat × String) := [(0, "UNSPECIFIED"), (1, "SINGLE"), (2, "DOUBLE"), (3, "TRIPLE"), (4, "QUADRUPLE"), (5, "AROMATIC"), (6, "AROMATIC"), (7, "AROMATIC"), (9, "AROMATIC"), (8, "DATIVE")]
/-- `_RDKIT_TO_BIOTITE_BOND_TYPE`. -/
def fromRdkit : List (String × Nat) := [("UNSPECIFIED", 0), ("SINGLE", 1), ("DOUBLE", 2), ("TRIPLE", 3), ("QUADRUPLE", 4), ("DATIVE", 8)]
/-- `_KEKULIZED_TO_AROMATIC_BOND_TYPE`. -/
def kekulizedToAromatic : List (Nat × Nat) := [(1, 5), (2, 6), (3, 7)]
/-- header.py: constant slices of `lines[1]` in `Header.deserialize`, in source order. -/
def headerSlices : List (Nat × Nat) := [(0, 2), (2, 10), (10, 20), (20, 22), (22, 34), (34, 46), (46, 52)]
/-- header.py: (width, precision) of the `>w.p` fields of the second header line in `Header.serialize`. -/
def headerFields : List (Nat × Nat) := [(2, 2), (8, 8), (10, 10), (2, 2), (12, 12), (12, 12), (6, 6)]
def headerDateFormat : String := "%m%d%y%H%M"
def headerNameLimit : Nat := 80
end BiotiteModel.Gen.C18

/- REGENERATED on every run by harness/props/c18.py from structure/io/mol/ctab.py, interface/rdkit/mol.py and
   structure/bonds.pyx (BondType values).  Do not edit. -/
namespace BiotiteModel.Gen.C18
/-- `BondType` members used below: (name, value). -/
def bondTypeEnum : List (String × Nat) := [("ANY", 0), ("SINGLE", 1), ("DOUBLE", 2), ("TRIPLE", 3), ("QUADRUPLE", 4), ("AROMATIC_SINGLE", 5), ("AROMATIC_DOUBLE", 6), ("AROMATIC_TRIPLE", 7), ("COORDINATION", 8), ("AROMATIC", 9)]
/-- `BOND_TYPE_MAPPING` in source order: (CTAB code, BondType value). -/
def bondTypeMapping : List (Int × Nat) := [(1, 1), (2, 2), (3, 3), (4, 9), (5, 0), (6, 5), (7, 6), (8, 0)]
/-- `CHARGE_MAPPING` in source order: (atom block code, charge). -/
def chargeMapping : List (Int × Int) := [(0, 0), (1, 3), (2, 2), (3, 1), (5, -1), (6, -2), (7, -3)]
def nChargesPerLine : Nat := 8
/-- `_is_v2000_compatible`: exclusive upper bounds for (n_atoms, n_bonds). -/
def v2000Bounds : Nat × Nat := (1000, 1000)
/-- `n_coord_digits > k` guards of the V2000 and the V3000 writer. -/
def coordDigitLimits : List Nat := [5, 5]
/-- constant slices `line[a:b]` of `_read_structure_from_ctab_v2000` (atom line, then charge prefix, then bond line). -/
def readerSlices : List (Nat × Nat) := [(0, 10), (10, 20), (20, 30), (31, 34), (36, 39), (6, 9), (0, 3), (3, 6)]
def countsSlices : List (Nat × Nat) := [(0, 3), (3, 6)]
def versionSlice : List (Nat × Nat) := [(33, 39)]
/-- field widths of the f-string templates of `_write_structure_to_ctab_v2000` (alignment, width). -/
def atomLineWidths : List (String × Nat) := [(">", 10), (">", 10), (">", 10), ("lit", 1), ("<", 3), (">", 2), (">", 3), (">", 3), (">", 3), (">", 3), (">", 3), (">", 3), (">", 3), (">", 3), (">", 3), (">", 3), (">", 3)]
def bondLineWidths : List (String × Nat) := [(">", 3), (">", 3), (">", 3), (">", 3), (">", 3), (">", 3), (">", 3)]
def countsLineWidths : List (String × Nat) := [(">", 3), (">", 3), ("lit", 33)]
/-- `_BIOTITE_TO_RDKIT_BOND_TYPE`: (BondType value, Chem.BondType member). -/
def toRdkit : List (Nat × String) := [(0, "UNSPECIFIED"), (1, "SINGLE"), (2, "DOUBLE"), (3, "TRIPLE"), (4, "QUADRUPLE"), (5, "AROMATIC"), (6, "AROMATIC"), (7, "AROMATIC"), (9, "AROMATIC"), (8, "DATIVE")]
/-- `_RDKIT_TO_BIOTITE_BOND_TYPE`. -/
def fromRdkit : List (String × Nat) := [("UNSPECIFIED", 0), ("SINGLE", 1), ("DOUBLE", 2), ("TRIPLE", 3), ("QUADRUPLE", 4), ("DATIVE", 8)]
/-- `_KEKULIZED_TO_AROMATIC_BOND_TYPE`. -/
def kekulizedToAromatic : List (Nat × Nat) := [(1, 5), (2, 6), (3, 7)]
/-- header.py: constant slices of `lines[1]` in `Header.deserialize`, in source order. -/
def headerSlices : List (Nat × Nat) := [(0, 2), (2, 10), (10, 20), (20, 22), (22, 34), (34, 46), (46, 52)]
/-- header.py: (width, precision) of the `>w.p` fields of the second header line in `Header.serialize`. -/
def headerFields : List (Nat × Nat) := [(2, 2), (8, 8), (10, 10), (2, 2), (12, 12), (12, 12), (6, 6)]
def headerDateFormat : String := "%m%d%y%H%M"
def headerNameLimit : Nat := 80
/-- ctab.py `V2000_COMPATIBILITY_LINE` -/
def compatLine : String := "  0  0  0  0  0  0  0  0  0  0999 V3000"
/-- V2000 counts line f-string: (lit|fmt, text|spec, kind of the formatted value) -/
def countsLineShape : List (String × String × String) := [("fmt", ">3d", "value"), ("fmt", ">3d", "value"), ("lit", "  0     0  0  0  0  0  0  1 V2000", "")]
/-- V2000 atom line f-string -/
def atomLineShape : List (String × String × String) := [("fmt", ">10.4f", "value"), ("fmt", ">10.4f", "value"), ("fmt", ">10.4f", "value"), ("lit", " ", ""), ("fmt", "3", "call:capitalize"), ("fmt", ">2", "const:0"), ("fmt", ">3d", "dictget-default:0"), ("fmt", ">3d", "const:0"), ("fmt", ">3d", "const:0"), ("fmt", ">3d", "const:0"), ("fmt", ">3d", "const:0"), ("fmt", ">3d", "const:0"), ("fmt", ">3d", "const:0"), ("fmt", ">3d", "const:0"), ("fmt", ">3d", "const:0"), ("fmt", ">3d", "const:0"), ("fmt", ">3d", "const:0")]
/-- V2000 bond line f-string -/
def bondLineShape : List (String × String × String) := [("fmt", ">3d", "plus:1"), ("fmt", ">3d", "plus:1"), ("fmt", ">3d", "value"), ("fmt", ">3d", "const:0"), ("fmt", ">3d", "const:0"), ("fmt", ">3d", "const:0"), ("fmt", ">3d", "const:0")]
/-- `M  CHG` line head f-string -/
def chargeHeadShape : List (String × String × String) := [("lit", "M  CHG", ""), ("fmt", ">3d", "call:len")]
/-- one `M  CHG` entry f-string -/
def chargeEntryShape : List (String × String × String) := [("lit", " ", ""), ("fmt", ">3d", "plus:1"), ("lit", " ", ""), ("fmt", ">3d", "value")]
/-- order of the line groups returned by the V2000 writer (locals named by what they hold) -/
def v2000LineOrder : List String := ["role:counts", "role:atoms", "role:bonds", "role:charges", "lit:M  END"]
/-- V3000 counts line f-string -/
def v3000CountsShape : List (String × String × String) := [("lit", "COUNTS ", ""), ("fmt", "", "value"), ("lit", " ", ""), ("fmt", "", "value"), ("lit", " 0 0 0", "")]
/-- V3000 atom line f-string -/
def v3000AtomShape : List (String × String × String) := [("fmt", "", "plus:1"), ("lit", " ", ""), ("fmt", "", "call:private"), ("lit", " ", ""), ("fmt", ".4f", "value"), ("lit", " ", ""), ("fmt", ".4f", "value"), ("lit", " ", ""), ("fmt", ".4f", "value"), ("lit", " 0 ", ""), ("fmt", "", "call:private")]
/-- V3000 bond line f-string -/
def v3000BondShape : List (String × String × String) := [("fmt", "", "plus:1"), ("lit", " ", ""), ("fmt", "", "value"), ("lit", " ", ""), ("fmt", "", "plus:1"), ("lit", " ", ""), ("fmt", "", "plus:1")]
/-- V3000 block skeleton -/
def v3000Skeleton : List String := ["lit:BEGIN CTAB", "role:counts", "lit:BEGIN ATOM", "role:atoms", "lit:END ATOM", "lit:BEGIN BOND", "role:bonds", "lit:END BOND", "lit:END CTAB"]
/-- prefix of every V3000 line -/
def v30Prefix : String := "M  V30 "
/-- what the V3000 writer returns -/
def v3000Return : List String := ["name:V2000_COMPATIBILITY_LINE", "role:lines", "lit:M  END"]
/-- `_to_property`: compare ops / constants and the f-string -/
def toPropertyShape : List String := ["Eq:0", "CHG={}", "''"]
/-- `_quote`: connective, tests (operator:constant) and the quoted form -/
def quoteShape : List String := ["Or", "In:' '", "Eq:0", "\"{}\""]
/-- `startswith(...)` literals of the V2000 reader -/
def r2StartsWith : List String := ["M  CHG"]
/-- `line[k:]` of the V2000 reader (`M  CHGnn8` prefix) -/
def r2OpenSlices : List Nat := [9]
/-- `startswith(...)` literals of the V3000 reader -/
def r3StartsWith : List String := ["M  V30"]
/-- `line[k:]` of the V3000 reader -/
def r3OpenSlices : List Nat := [6]
/-- `_get_block_v3000`: startswith patterns in source order -/
def blockMarkers : List String := ["BEGIN {}", "END {}"]
/-- blocks the V3000 reader asks for, in order -/
def blocksRead : List String := ["ATOM", "BOND"]
/-- `columns[...]` subscripts of the V3000 reader in source order -/
def r3Columns : List String := ["0", "1", "2:5", "6:", "1", "2", "3"]
/-- string constants compared / looked up by the V3000 reader -/
def r3Strings : List String := ["\"", "'", "CHG", "R#"]
/-- `create_property_dict_v3000`: split separator -/
def propSplit : List String := ["="]
/-- `x - k` constants in the readers (1-based file indices) -/
def readerMinus : List Int := [1]
/-- `x + k` constants in the writers -/
def writerPlus : List Int := [1]
/-- version strings matched by the dispatchers (`case "…"`) -/
def versionCases : List String := ["V2000", "V3000", "", "<capture>", "None", "V2000", "V3000", "<capture>"]
/-- V2000 writer: the element width guard `len(element) <op> k` -/
def elemGuard : String × Nat := ("Gt", 3)
/-- V2000 writer: coordinate guard < element guard < atom lines < default-bond lookup (source order) -/
def v2000GuardOrder : Bool := true
/-- exception classes raised, per function, in source order -/
def raisesTable : List (String × List String) := [("write_structure_to_ctab", ["TypeError", "BadStructureError", "BadStructureError", "ValueError", "ValueError"]), ("v2000-writer", ["BadStructureError", "BadStructureError"]), ("v3000-writer", ["BadStructureError"]), ("read_structure_from_ctab", ["InvalidFileError", "InvalidFileError"]), ("v3000-reader", ["InvalidFileError", "NotImplementedError"]), ("v3000-block-scan", ["InvalidFileError"]), ("Key.__post_init__", ["ValueError", "ValueError", "ValueError", "ValueError", "ValueError"]), ("Key.deserialize", ["DeserializationError", "DeserializationError"]), ("Metadata.deserialize", ["DeserializationError"]), ("metadata-value-check", ["ValueError", "ValueError", "ValueError", "ValueError"]), ("metadata-add-pair", ["DeserializationError"]), ("SDRecord.get_structure", ["InvalidFileError"]), ("SDFile.serialize", ["SerializationError", "SerializationError"]), ("SDFile.__getitem__", ["DeserializationError"]), ("SDFile.__setitem__", ["TypeError"]), ("SDFile.record", ["ValueError", "ValueError"]), ("Header.serialize", ["ValueError", "ValueError"]), ("MOLFile.get_structure", ["InvalidFileError"]), ("to_mol", ["BadStructureError", "TypeError", "BadStructureError"]), ("from_mol", ["BadStructureError"])]
/-- default values of the public entry points (argument, default as source text) -/
def defaultsTable : List (String × List (String × String)) := [("write_structure_to_ctab", [("atoms", "<required>"), ("default_bond_type", "BondType.ANY"), ("version", "None")]), ("MOLFile.set_structure", [("atoms", "<required>"), ("default_bond_type", "BondType.ANY"), ("version", "None")]), ("SDRecord.set_structure", [("atoms", "<required>"), ("default_bond_type", "BondType.ANY"), ("version", "None")]), ("SDRecord.__init__", [("header", "None"), ("ctab", "None"), ("metadata", "None")]), ("SDFile.__init__", [("records", "None")]), ("Metadata.__init__", [("metadata", "None")]), ("convert.get_structure", [("mol_file", "<required>"), ("record_name", "None")]), ("convert.set_structure", [("mol_file", "<required>"), ("atoms", "<required>"), ("default_bond_type", "BondType.ANY"), ("version", "None"), ("record_name", "None")]), ("to_mol", [("atoms", "<required>"), ("kekulize", "False"), ("use_dative_bonds", "False"), ("include_extra_annotations", "()"), ("explicit_hydrogen", "None")]), ("from_mol", [("mol", "<required>"), ("conformer_id", "None"), ("add_hydrogen", "None")]), ("Header", [("mol_name", "''"), ("initials", "''"), ("program", "''"), ("time", "None"), ("dimensions", "''"), ("scaling_factors", "''"), ("energy", "''"), ("registry_number", "''"), ("comments", "''")]), ("Metadata.Key", [("number", "None"), ("name", "None"), ("registry_internal", "None"), ("registry_external", "None")])]
/-- sdf.py: number of header lines (start of the scan for the CTAB end), mol.py `N_HEADER` -/
def nHeader : Nat × Nat := (3, 3)
/-- sdf.py: the record delimiter -/
def recordDelimiter : String := "$$$$"
/-- `Metadata.Key._NAME_INPUT_REGEX` -/
def keyNameRegex : String := "^[a-zA-Z0-9][\\w.]*\\Z"
/-- `Metadata.Key._COMPONENT_REGEX` in dict order -/
def keyComponentRegex : List (String × String) := [("number", "^DT(\\d+)$"), ("name", "^<([a-zA-Z0-9][\\w.]*)>$"), ("registry_internal", "^(\\d+)$"), ("registry_external", "^\\(([\\w.-]*)\\)$")]
/-- regex applied to `registry_external` in `__post_init__` -/
def keyExtRegex : List String := ["^[\\w.-]*\\Z"]
/-- `__post_init__`: compare ops against constants (`< 0` …) -/
def keyNumberGuards : List String := ["Lt:0", "Lt:0"]
/-- `Key.serialize`: the pieces appended, in order -/
def keySerializePieces : List String := ["init:> ", "DT{number} ", "<{name}> ", "{registry_internal} ", "({registry_external}) "]
/-- `_check_metadata_value`: startswith / split literals, then the tests (operator:constant; `call:` = a method result is tested) -/
def valueChecks : List String := [">", "\n", "Eq:0", "Eq:0", "call:startswith", "NotEq:/splitlines"]
/-- `Metadata.deserialize`: startswith literal and the join separator -/
def mdDeserializeStrings : List String := [">", "\n"]
/-- `_get_ctab_stop`: number of range arguments (2 = forward scan), its start, the startswith literal, `return i + k` -/
def ctabStopShape : List String := ["args:2", "start:3", "M  END", "ret:+1"]
/-- mol.py `_get_ctab_lines`: where the scan for `M  END` starts, the startswith literal -/
def ctabLinesShape : List String := ["forward-from:3", "M  END"]
/-- `SDFile.deserialize`: how a delimiter line is recognised -/
def delimiterTest : List String := ["startswith:delimiter"]
/-- `SDFile.serialize`: the delimiter-line check -/
def delimiterCheck : List String := ["startswith:delimiter"]
/-- convert.py `_get_or_create_record`: the invented record name, and the membership guard before a record is created -/
def convertShape : List String := ["Molecule", "NotIn"]
/-- header.py: (Header field, start, stop, stripped) read from the second line (`time`: via strptime) -/
def headerFieldSlices : List (String × Nat × Nat × Bool) := [("initials", 0, 2, true), ("program", 2, 10, true), ("time", 10, 20, false), ("dimensions", 20, 22, true), ("scaling_factors", 22, 34, true), ("energy", 34, 46, true), ("registry_number", 46, 52, true)]
/-- header.py: the dataclass fields of `Header` in order (the adapters construct it positionally) -/
def headerDataclassFields : List String := ["mol_name", "initials", "program", "time", "dimensions", "scaling_factors", "energy", "registry_number", "comments"]
/-- header.py: fields written into the second line, in order -/
def headerWriteOrder : List String := ["initials", "program", "time", "dimensions", "scaling_factors", "energy", "registry_number"]
/-- header.py: indices of the lines the three parts are read from -/
def headerLineIndices : List Nat := [0, 1, 2]
/-- to_mol: keywords of `mol.AddConformer(...)` -/
def addConformerKeywords : List String := ["assignId=True"]
/-- what the extractor could not find in the current source (must be empty) -/
def extractorProblems : List String := []
end BiotiteModel.Gen.C18

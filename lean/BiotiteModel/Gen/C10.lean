/- REGENERATED on every run by harness/props/c10.py from sequence/align/*.pyx. Do not edit. -/
namespace BiotiteModel.Gen.C10
def entrySizeNoBuckets : Nat := 2
def entrySizeBuckets : Nat := 4
def headerWords : Nat := 2
def allocHeaderWords : Nat := 2
def lcgA : Nat := 15074714826142052245
def lcgC : Nat := 1
def maxInt64 : Int := 9223372036854775807
def kMin : Nat := 2
def windowMin : Nat := 2
end BiotiteModel.Gen.C10

/- REGENERATED on every run by harness/props/c09.py from sequence/align/{banded,localgapped,localungapped}.pyx. Do not edit. -/
namespace BiotiteModel.Gen.C09
/-- `INIT_SIZE` of localgapped.pyx -/
def initSize : Nat := 100
/-- `init_score = threshold + initOffset` -/
def initOffset : Nat := 1
/-- growth factor of `_extend_table` -/
def growFactor : Nat := 2
/-- comparison operators of the guards, as written in the source -/
def bandedGapGuard : String := ">"
def gappedGapGuard : String := ">="
def gappedThresholdGuard : String := "<"
def ungappedThresholdGuard : String := "<"
def gappedAccept : String := ">="
def ungappedDrop : String := ">"
def ungappedKeep : String := ">="
/-- `_extend_table`: MemoryError iff new_rows * new_cols <op> max_size -/
def extendLimit : String := ">"
end BiotiteModel.Gen.C09

/- REGENERATED on every run by harness/props/c09.py from sequence/align/{banded,localgapped,localungapped}.pyx. Do not edit. -/
namespace BiotiteModel.Gen.C09
/-- `INIT_SIZE` of localgapped.pyx -/
def initSize : Nat := 100
/-- `init_score = threshold + initOffset` -/
def initOffset : Nat := 1
/-- growth factor of `_extend_table` -/
def growFactor : Nat := 2
/-- comparison operators of the guards, as written in the source -/
def bandedGapGuard : String := ">"
def gappedGapGuard : String := ">="
def gappedThresholdGuard : String := "<"
def ungappedThresholdGuard : String := "<"
def gappedAccept : String := ">="
def ungappedDrop : String := ">"
def ungappedKeep : String := ">="
/-- `_extend_table`: MemoryError iff new_rows * new_cols <op> max_size -/
def extendLimit : String := ">"
/-- structural facts of `align_banded`, its fill functions and `get_global_trace_starts` (blank-free source text) -/
def bandedFacts : List (String × String) :=
    [("banded.swap_condition", "len(seq2)<len(seq1)"),
    ("banded.swap_band", "[-diagfordiaginband]"),
    ("banded.swap_matrix", "matrix.transpose()"),
    ("banded.lower_upper", "min(band),max(band)"),
    ("banded.crop_lower", "max(lower_diag,-len(seq1)+1)"),
    ("banded.crop_upper", "min(upper_diag,len(seq2)-1)"),
    ("banded.band_width", "upper_diag-lower_diag+1"),
    ("banded.table_shape", "(len(seq1)+1,band_width+2)"),
    ("banded.neg_inf", "np.iinfo(np.int32).min"),
    ("banded.neg_inf_gap", "min(gap_penalty)ifaffine_penaltyelsegap_penalty"),
    ("banded.neg_inf_score_guard", "min_score<0"),
    ("banded.border_left", "neg_inf"),
    ("banded.border_right", "neg_inf"),
    ("banded.g1_init", "neg_inf"),
    ("banded.g2_init", "neg_inf"),
    ("banded.local_max_affine", "np.max(m_table)"),
    ("banded.local_max_linear", "np.max(score_table)"),
    ("banded.semi_max_affine", "max(m_max_score,g1_max_score,g2_max_score)"),
    ("banded.cut", "trace_list[:max_number]"),
    ("banded.swapped_result", "[seq2,seq1],np.flip(trace,axis=1),max_score"),
    ("banded.fill.j_lo", "max(0,seq_i+lower_diag)"),
    ("banded.fill.j_hi", "min(code2.shape[0],seq_i+upper_diag+1)"),
    ("banded.fill.j_table", "seq_j-seq_i-lower_diag+1"),
    ("banded.fill.from_diag", "score_table[i-1,j]+mat[code1[seq_i],code2[seq_j]]"),
    ("banded.fill.from_left", "score_table[i,j-1]+gap_penalty"),
    ("banded.fill.from_top", "score_table[i-1,j+1]+gap_penalty"),
    ("banded.fill.local_floor", "local==Trueandscore<=0"),
    ("banded.aff.mm", "m_table[i-1,j]+similarity_score"),
    ("banded.aff.g1m", "g1_table[i-1,j]+similarity_score"),
    ("banded.aff.g2m", "g2_table[i-1,j]+similarity_score"),
    ("banded.aff.mg1", "m_table[i,j-1]+gap_open"),
    ("banded.aff.g1g1", "g1_table[i,j-1]+gap_ext"),
    ("banded.aff.mg2", "m_table[i-1,j+1]+gap_open"),
    ("banded.aff.g2g2", "g2_table[i-1,j+1]+gap_ext"),
    ("banded.aff.local_m", "m_score<=0"),
    ("banded.aff.local_g1", "g1_score<=0"),
    ("banded.aff.local_g2", "g2_score<=0"),
    ("banded.starts.seq_j", "j+(seq1_len-1)+lower_diag-1"),
    ("banded.starts.test", "seq_j<seq2_len"),
    ("banded.starts.column_row", "(seq2_len-1)-j-lower_diag+2")]
/-- structural facts of `align_local_gapped`, `_align_region`, the X-drop fills and `_extend_table` -/
def gappedFacts : List (String × String) :=
    [("gapped.no_upstream", "seq1_start==0orseq2_start==0"),
    ("gapped.upstream_slices", "code1[seq1_start-1::-1],code2[seq2_start-1::-1]"),
    ("gapped.downstream_slices", "code1[seq1_start+1:],code2[seq2_start+1:]"),
    ("gapped.seed_score", "score_matrix[code1[seq1_start],code2[seq2_start]]"),
    ("gapped.default_mts", "np.iinfo(np.int64).max"),
    ("gapped.init_size", "(_min(len(code1)+1,INIT_SIZE),_min(len(code2)+1,INIT_SIZE))"),
    ("gapped.init_score", "threshold+1"),
    ("gapped.region_result_score_only", "max_score-init_score,None"),
    ("gapped.region_result", "max_score-init_score,trace_list"),
    ("gapped.region_cut", "trace_list[:max_number]"),
    ("gapped.fill.k_range", "1,code1.shape[0]+code2.shape[0]+1"),
    ("gapped.fill.i_min", "_min(i_min_k_1,i_min_k_2+1)"),
    ("gapped.fill.i_max", "_max(i_max_k_1+1,i_max_k_2+1)"),
    ("gapped.fill.i_min_clip", "_max(i_min,k-code2.shape[0])"),
    ("gapped.fill.i_max_clip", "_min(i_max,code1.shape[0])"),
    ("gapped.fill.stop", "i_min>i_max"),
    ("gapped.fill.j_max", "k-i_min"),
    ("gapped.fill.grow_rows", "i_max>=score_table.shape[0]"),
    ("gapped.fill.grow_cols", "j_max>=score_table.shape[1]"),
    ("gapped.fill.i_range", "i_min,i_max+1"),
    ("gapped.fill.j", "k-i"),
    ("gapped.fill.diag_valid", "from_diag!=0"),
    ("gapped.fill.from_diag", "matrix[code1[i-1],code2[j-1]]"),
    ("gapped.fill.from_top", "score_table[i-1,j]+gap_penalty"),
    ("gapped.fill.from_left", "score_table[i,j-1]+gap_penalty"),
    ("gapped.fill.score_only", "_max(from_diag,_max(from_left,from_top))"),
    ("gapped.fill.new_max", "score>max_score"),
    ("gapped.fill.req_score", "max_score-threshold"),
    ("gapped.aff.mm_valid", "mm_score!=0"),
    ("gapped.aff.mg1", "m_table[i,j-1]+gap_open"),
    ("gapped.aff.g1g1", "g1_table[i,j-1]+gap_ext"),
    ("gapped.aff.mg2", "m_table[i-1,j]+gap_open"),
    ("gapped.aff.g2g2", "g2_table[i-1,j]+gap_ext"),
    ("gapped.aff.accept_m", "m_score>=req_score"),
    ("gapped.aff.accept_g1", "g1_score>=req_score"),
    ("gapped.aff.accept_g2", "g2_score>=req_score"),
    ("gapped.aff.result", "np.max(m_table)"),
    ("gapped.extend.rows", "(table.shape[0]*2,table.shape[1])"),
    ("gapped.extend.cols", "(table.shape[0],table.shape[1]*2)"),
    ("gapped.extend.copy", ":table.shape[0],:table.shape[1]")]
/-- structural facts of `align_local_ungapped` and `_seed_extend_generic` -/
def ungappedFacts : List (String × String) :=
    [("ungapped.upstream_condition", "upstreamandseq1_start>0andseq2_start>0"),
    ("ungapped.upstream_slices", "code1[seq1_start-1::-1],code2[seq2_start-1::-1]"),
    ("ungapped.downstream_slices", "code1[seq1_start+1:],code2[seq2_start+1:]"),
    ("ungapped.seed_score", "score_matrix[code1[seq1_start],code2[seq2_start]]"),
    ("ungapped.start_offset", "length"),
    ("ungapped.stop_offset", "length"),
    ("ungapped.trace_rows", "np.arange(seq1_start+start_offset,seq1_start+stop_offset),np.arange(seq2_start+start_offset,seq2_start+stop_offset)"),
    ("ungapped.extend.domain", "_min(code1.shape[0],code2.shape[0])"),
    ("ungapped.extend.step", "matrix[code1[i],code2[i]]"),
    ("ungapped.extend.result", "max_score,i_max_score+1"),
    ("ungapped.extend.init", "-1")]
/-- tracetable.pyx: tests and assigned maxima of `get_trace_linear` / `get_trace_affine` in source order -/
def traceFacts : List (String × String) :=
    [("trace.get_trace_linear.tests", "match_score>gap_left_score;match_score>gap_top_score;match_score==gap_top_score;match_score==gap_left_score;match_score>gap_top_score;match_score==gap_top_score;gap_left_score>gap_top_score;gap_left_score==gap_top_score"),
    ("trace.get_trace_linear.maxima", "max_score=match_score;max_score=match_score;max_score=gap_top_score;max_score=match_score;max_score=match_score;max_score=gap_top_score;max_score=gap_left_score;max_score=gap_left_score;max_score=gap_top_score"),
    ("trace.get_trace_affine.tests", "match_to_match_score>gap_left_to_match_score;match_to_match_score>gap_top_to_match_score;match_to_match_score==gap_top_to_match_score;match_to_match_score==gap_left_to_match_score;match_to_match_score>gap_top_to_match_score;match_to_match_score==gap_top_to_match_score;gap_left_to_match_score>gap_top_to_match_score;gap_left_to_match_score==gap_top_to_match_score;match_to_gap_left_score>gap_left_to_gap_left_score;match_to_gap_left_score<gap_left_to_gap_left_score;match_to_gap_top_score>gap_top_to_gap_top_score;match_to_gap_top_score<gap_top_to_gap_top_score"),
    ("trace.get_trace_affine.maxima", "max_match_score=match_to_match_score;max_match_score=match_to_match_score;max_match_score=gap_top_to_match_score;max_match_score=match_to_match_score;max_match_score=match_to_match_score;max_match_score=gap_top_to_match_score;max_match_score=gap_left_to_match_score;max_match_score=gap_left_to_match_score;max_match_score=gap_top_to_match_score;max_gap_left_score=match_to_gap_left_score;max_gap_left_score=gap_left_to_gap_left_score;max_gap_left_score=match_to_gap_left_score;max_gap_top_score=match_to_gap_top_score;max_gap_top_score=gap_top_to_gap_top_score;max_gap_top_score=gap_top_to_gap_top_score")]
/-- every `if … : raise X` of the public functions in source order: (condition, exception class) -/
def guards_align_banded : List (String × String) :=
    [("notmatrix.get_alphabet1().extends(seq1.get_alphabet())ornotmatrix.get_alphabet2().extends(seq2.get_alphabet())", "ValueError"),
    ("gap_penalty>0", "ValueError"),
    ("gap_penalty[0]>0orgap_penalty[1]>0", "ValueError"),
    ("else", "TypeError"),
    ("max_number<1", "ValueError"),
    ("len(seq1)+upper_diag<=0orlower_diag>=len(seq2)", "ValueError"),
    ("band_width<1", "ValueError")]
def guards_align_local_gapped : List (String × String) :=
    [("notmatrix.get_alphabet1().extends(seq1.get_alphabet())ornotmatrix.get_alphabet2().extends(seq2.get_alphabet())", "ValueError"),
    ("gap_penalty>=0", "ValueError"),
    ("gap_penalty[0]>=0orgap_penalty[1]>=0", "ValueError"),
    ("else", "TypeError"),
    ("max_number<1", "ValueError"),
    ("max_table_size<=0", "ValueError"),
    ("seq1_start<0orseq2_start<0", "IndexError"),
    ("seq1_start>=len(code1)orseq2_start>=len(code2)", "IndexError"),
    ("else", "ValueError"),
    ("threshold<0", "ValueError")]
def guards_align_local_ungapped : List (String × String) :=
    [("notmatrix.get_alphabet1().extends(seq1.get_alphabet())ornotmatrix.get_alphabet2().extends(seq2.get_alphabet())", "ValueError"),
    ("else", "ValueError"),
    ("threshold<0", "ValueError"),
    ("seq1_start<0orseq2_start<0", "IndexError")]
def guards_extend_table : List (String × String) :=
    [("new_shape[0]*new_shape[1]>max_size", "MemoryError")]
/-- parameters and default values of the public functions -/
def signature_align_banded : List (String × String) :=
    [("seq1", ""),
    ("seq2", ""),
    ("matrix", ""),
    ("band", ""),
    ("gap_penalty", "-10"),
    ("local", "False"),
    ("max_number", "1000")]
def signature_align_local_gapped : List (String × String) :=
    [("seq1", ""),
    ("seq2", ""),
    ("matrix", ""),
    ("seed", ""),
    ("threshold", ""),
    ("gap_penalty", "-10"),
    ("max_number", "1"),
    ("direction", "'both'"),
    ("score_only", "False"),
    ("max_table_size", "None")]
def signature_align_local_ungapped : List (String × String) :=
    [("seq1", ""),
    ("seq2", ""),
    ("matrix", ""),
    ("seed", ""),
    ("threshold", ""),
    ("direction", "'both'"),
    ("score_only", "False"),
    ("check_matrix", "True")]
end BiotiteModel.Gen.C09

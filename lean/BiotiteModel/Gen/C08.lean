/- REGENERATED on every run by harness/props/c08.py from sequence/align/{tracetable.pxd, tracetable.pyx, pairwise.pyx,
   alignment.py, matrix.py}. Do not edit. -/
set_option linter.unusedVariables false
namespace BiotiteModel.Gen.C08
/-- `TraceDirectionLinear` members: (name, bit value). -/
def traceLinear : List (String × Nat) := [("MATCH", 1), ("GAP_LEFT", 2), ("GAP_TOP", 4)]
/-- `TraceDirectionAffine` members. -/
def traceAffine : List (String × Nat) := [("MATCH_TO_MATCH", 1), ("GAP_LEFT_TO_MATCH", 2), ("GAP_TOP_TO_MATCH", 4), ("MATCH_TO_GAP_LEFT", 8), ("GAP_LEFT_TO_GAP_LEFT", 16), ("MATCH_TO_GAP_TOP", 32), ("GAP_TOP_TO_GAP_TOP", 64)]
/-- `TraceState` members. -/
def traceState : List (String × Nat) := [("NO_STATE", 0), ("MATCH_STATE", 1), ("GAP_LEFT_STATE", 2), ("GAP_TOP_STATE", 3)]
/-- bit width of the `trace_table` dtype in `align_optimal`. -/
def traceTableBits : Nat := 8
/-- keyword defaults of `align_optimal` -/
def defaultsAlignOptimal : List (String × String) := [("gap_penalty", "-10"), ("terminal_penalty", "True"), ("local", "False"), ("max_number", "1000")]
/-- keyword defaults of `align_ungapped` -/
def defaultsAlignUngapped : List (String × String) := [("score_only", "False")]
/-- keyword defaults of `align.score` -/
def defaultsScore : List (String × String) := [("gap_penalty", "-10"), ("terminal_penalty", "True")]
/-- argument checks of `align_optimal` in source order: (condition, exception class) -/
def argChecks : List (String × String) := [("not matrix.get_alphabet1().extends(seq1.get_alphabet()) or not matrix.get_alphabet2().extends(seq2.get_alphabet())", "ValueError"), ("gap_penalty > 0", "ValueError"), ("gap_penalty[0] > 0 or gap_penalty[1] > 0", "ValueError"), ("else", "TypeError"), ("max_number < 1", "ValueError")]
/-- how linear / affine penalties are told apart -/
def gapKindTests : List String := ["if type(gap_penalty) == int:", "elif type(gap_penalty) == tuple:"]
/-- table allocations (shape, fill value, dtype) -/
def alloc : List String := ["trace_table = np.zeros(( len(seq1)+1, len(seq2)+1 ), dtype=np.uint8)", "m_table = np.zeros((len(seq1)+1, len(seq2)+1), dtype=np.int32)", "g1_table = np.full((len(seq1)+1, len(seq2)+1), neg_inf, dtype=np.int32)", "g2_table = np.full((len(seq1)+1, len(seq2)+1), neg_inf, dtype=np.int32)", "score_table = np.zeros(( len(seq1)+1, len(seq2)+1 ), dtype=np.int32)"]
/-- the pseudo minus infinity -/
def negInf : List String := ["neg_inf = np.iinfo(np.int32).min - gap_open - gap_ext", "neg_inf -= min_score", "min_score = np.min(matrix.score_matrix())", "if min_score < 0:"]
/-- first row / column initialisation statements in source order -/
def tableInit : List String := ["m_table [0, 1:] = neg_inf", "m_table [1:, 0] = neg_inf", "g1_table[0, 1:] = (np.arange(len(seq2)) * gap_ext) + gap_open", "g2_table[1:, 0] = (np.arange(len(seq1)) * gap_ext) + gap_open", "g1_table[0, 1:] = np.zeros(len(seq2))", "g2_table[1:, 0] = np.zeros(len(seq1))", "trace_table[0, 1] = TraceDirectionAffine.MATCH_TO_GAP_LEFT", "trace_table[0, 2:] = TraceDirectionAffine.GAP_LEFT_TO_GAP_LEFT", "trace_table[1, 0] = TraceDirectionAffine.MATCH_TO_GAP_TOP", "trace_table[2: ,0] = TraceDirectionAffine.GAP_TOP_TO_GAP_TOP", "g1_table[0, 1:] = np.zeros(len(seq2))", "g2_table[1:, 0] = np.zeros(len(seq1))", "score_table[:,0] = np.arange(len(seq1)+1) * gap_penalty", "score_table[0,:] = np.arange(len(seq2)+1) * gap_penalty", "trace_table[1:,0] = TraceDirectionLinear.GAP_TOP", "trace_table[0,1:] = TraceDirectionLinear.GAP_LEFT", "g1_table[i_start,j_start],", "g2_table[i_start,j_start])"]
/-- start cells / states of the traceback -/
def startSelection : List String := ["state_list = np.zeros(0, dtype=int)", "max_score = np.max(m_table)", "i_list, j_list = np.where((m_table == max_score))", "state_list = np.append(state_list, np.full(len(i_list), 1))", "max_score = np.max(score_table)", "i_list, j_list = np.where((score_table == max_score))", "state_list = np.zeros(len(i_list), dtype=int)", "i_start = trace_table.shape[0] -1", "j_start = trace_table.shape[1] -1", "max_score = max(m_table[i_start,j_start],", "if m_table[i_start,j_start] == max_score:", "state_list = np.append(state_list, 1)", "if g1_table[i_start,j_start] == max_score:", "state_list = np.append(state_list, 2)", "if g2_table[i_start,j_start] == max_score:", "state_list = np.append(state_list, 3)", "state_list = np.append(state_list, 0)", "max_score = score_table[i_start,j_start]", "i_start = i_list[k]", "j_start = j_list[k]"]
/-- counter start, follow_trace arguments, final truncation -/
def tracebackCalls : List String := ["trace = np.full(( i_start+1 + j_start+1, 2 ), -1, dtype=np.int64)", "curr_trace_count = 1", "trace_table, False, i_start, j_start, 0, trace, trace_list,", "state=state_start, curr_trace_count=&curr_trace_count,", "max_trace_count=max_number,", "trace_list = trace_list[:max_number]"]
/-- loop domains of `_fill_align_table` -/
def fillLinLoops : List (String × String × String × String) := [("i", "1", "score_table", "0"), ("j", "1", "score_table", "1")]
/-- last row / column -/
def fillLinMax : List String := ["i_max = score_table.shape[0] -1", "j_max = score_table.shape[1] -1"]
/-- (candidate, table, di, dj, addend, governing condition) -/
def fillLinCands : List (String × String × Int × Int × String × String) := [("from_diag", "score_table", (-1), (-1), "matrix[code1[i-1], code2[j-1]]", ""), ("from_left", "score_table", 0, (-1), "", "not term_penalty and i == i_max"), ("from_left", "score_table", 0, (-1), "gap_penalty", "else"), ("from_top", "score_table", (-1), 0, "", "not term_penalty and j == j_max"), ("from_top", "score_table", (-1), 0, "gap_penalty", "else")]
/-- local: penalties forced on, floor at zero -/
def fillLinFloor : List String := ["if local:", "term_penalty = True", "if local == True and score <= 0:", "continue"]
/-- call of get_trace_linear and the stores -/
def fillLinStore : List String := ["trace = get_trace_linear(from_diag, from_left, from_top, &score)", "score_table[i,j] = score", "trace_table[i,j] = trace"]
/-- loop domains of `_fill_align_table_affine` -/
def fillAffLoops : List (String × String × String × String) := [("i", "1", "trace_table", "0"), ("j", "1", "trace_table", "1")]
/-- last row / column -/
def fillAffMax : List String := ["i_max = trace_table.shape[0] -1", "j_max = trace_table.shape[1] -1"]
/-- (candidate, table, di, dj, addend, governing condition) -/
def fillAffCands : List (String × String × Int × Int × String × String) := [("mm_score", "m_table", (-1), (-1), "similarity_score", ""), ("g1m_score", "g1_table", (-1), (-1), "similarity_score", ""), ("g2m_score", "g2_table", (-1), (-1), "similarity_score", ""), ("mg1_score", "m_table", 0, (-1), "", "not term_penalty and i == i_max"), ("g1g1_score", "g1_table", 0, (-1), "", "not term_penalty and i == i_max"), ("mg1_score", "m_table", 0, (-1), "gap_open", "else"), ("g1g1_score", "g1_table", 0, (-1), "gap_ext", "else"), ("mg2_score", "m_table", (-1), 0, "", "not term_penalty and j == j_max"), ("g2g2_score", "g2_table", (-1), 0, "", "not term_penalty and j == j_max"), ("mg2_score", "m_table", (-1), 0, "gap_open", "else"), ("g2g2_score", "g2_table", (-1), 0, "gap_ext", "else")]
/-- similarity lookup -/
def fillAffSim : List String := ["similarity_score = matrix[code1[i-1], code2[j-1]]"]
/-- local floors: (score, operator, bound, cleared trace bits) -/
def fillAffFloors : List (String × String × String × List String) := [("m_score", "<=", "0", ["MATCH_TO_MATCH", "GAP_LEFT_TO_MATCH", "GAP_TOP_TO_MATCH"]), ("g1_score", "<=", "0", ["MATCH_TO_GAP_LEFT", "GAP_LEFT_TO_GAP_LEFT"]), ("g2_score", "<=", "0", ["MATCH_TO_GAP_TOP", "GAP_TOP_TO_GAP_TOP"])]
/-- arguments of get_trace_affine and the stores -/
def fillAffStore : List String := ["mm_score, g1m_score, g2m_score,", "mg1_score, g1g1_score,", "mg2_score, g2g2_score,", "&m_score, &g1_score, &g2_score", "m_table[i,j] = m_score", "g1_table[i,j] = g1_score", "g2_table[i,j] = g2_score", "m_table[i,j] = m_score", "g1_table[i,j] = g1_score", "g2_table[i,j] = g2_score", "trace_table[i,j] = trace"]
/-- predecessor indices in follow_trace (banded, plain, banded, plain) -/
def followPred : List String := ["i_match, i_gap_left, i_gap_top = i-1, i, i-1", "j_match, j_gap_left, j_gap_top = j , j-1, j+1", "i_match, i_gap_left, i_gap_top = i-1, i, i-1", "j_match, j_gap_left, j_gap_top = j-1, j-1, j", "i_match, i_gap_left, i_gap_top = i-1, i, i-1", "j_match, j_gap_left, j_gap_top = j , j-1, j+1", "i_match, i_gap_left, i_gap_top = i-1, i, i-1", "j_match, j_gap_left, j_gap_top = j-1, j-1, j"]
/-- sequence indices written into the trace -/
def followSeqIdx : List String := ["seq_i = i - 1", "seq_j = j + seq_i + lower_diag - 1", "seq_i = i - 1", "seq_j = j - 1", "seq_i = i - 1", "seq_j = j + seq_i + lower_diag - 1", "seq_i = i - 1", "seq_j = j - 1"]
/-- order in which the linear trace bits are examined -/
def followLinDirs : List (String × String × String) := [("MATCH", "i_match", "j_match"), ("GAP_LEFT", "i_gap_left", "j_gap_left"), ("GAP_TOP", "i_gap_top", "j_gap_top")]
/-- order of the affine transitions: (bit, i, j, next state) -/
def followAffDirs : List (String × String × String × String) := [("MATCH_TO_MATCH", "i_match", "j_match", "MATCH_STATE"), ("GAP_LEFT_TO_MATCH", "i_match", "j_match", "GAP_LEFT_STATE"), ("GAP_TOP_TO_MATCH", "i_match", "j_match", "GAP_TOP_STATE"), ("MATCH_TO_GAP_LEFT", "i_gap_left", "j_gap_left", "MATCH_STATE"), ("GAP_LEFT_TO_GAP_LEFT", "i_gap_left", "j_gap_left", "GAP_LEFT_STATE"), ("MATCH_TO_GAP_TOP", "i_gap_top", "j_gap_top", "MATCH_STATE"), ("GAP_TOP_TO_GAP_TOP", "i_gap_top", "j_gap_top", "GAP_TOP_STATE")]
/-- loop / branching / counter statements of follow_trace -/
def followBranch : List String := ["while trace_table[i,j] != 0:", "trace[pos, 0] = seq_i", "trace[pos, 1] = seq_j", "pos += 1", "for k in range(1, len(next_indices)):", "if curr_trace_count[0] < max_trace_count:", "curr_trace_count[0] += 1", "new_i, new_j = next_indices[k]", "i, j = next_indices[0]", "trace[pos, 0] = seq_i", "trace[pos, 1] = seq_j", "pos += 1", "for k in range(1, len(next_indices)):", "if curr_trace_count[0] < max_trace_count:", "curr_trace_count[0] += 1", "new_i, new_j = next_indices[k]", "new_state = next_states[k]", "i, j = next_indices[0]", "state = next_states[0]"]
/-- bits examined in MATCH / GAP_LEFT / GAP_TOP state -/
def followStateMasks : List (List String) := [["MATCH_TO_MATCH", "GAP_LEFT_TO_MATCH", "GAP_TOP_TO_MATCH"], ["MATCH_TO_GAP_LEFT", "GAP_LEFT_TO_GAP_LEFT"], ["MATCH_TO_GAP_TOP", "GAP_TOP_TO_GAP_TOP"]]
/-- `if` tests of align.score in ast order -/
def scoreIfs : List String := ["get_codes(alignment)[:, L0][L1] != -1 and get_codes(alignment)[:, L0][L2] != -1", "isinstance(gap_penalty, numbers.Real)", "isinstance(gap_penalty, Sequence)", "terminal_penalty", "L3[L4] == -1", "v3"]
/-- `score += …` statements -/
def scoreAugAssign : List (String × String × String) := [("v0", "Add", "matrix.score_matrix()[get_codes(alignment)[:, L0][L1], get_codes(alignment)[:, L0][L2]]"), ("v0", "Add", "v2"), ("v0", "Add", "v1")]
/-- gap_open / gap_ext / in_gap / slice assignments -/
def scoreAssign : List String := ["v0 = 0", "v1 = gap_penalty", "v2 = gap_penalty", "v1 = gap_penalty[0]", "v2 = gap_penalty[1]", "v3 = False", "v4 = 0", "v5 = len(L3)", "v4, v5 = find_terminal_gaps(alignment)", "v3 = True", "v3 = False", "L0 in range(get_codes(alignment).shape[1])", "L1 in range(get_codes(alignment).shape[0])", "L2 in range(L1 + 1, get_codes(alignment).shape[0])", "L3 in get_codes(alignment)", "L4 in range(v4, v5)"]
/-- exception classes raised by align.score -/
def scoreRaises : List String := ["TypeError"]
/-- `return` of find_terminal_gaps -/
def ftgReturn : List String := ["(np.max([L2[0] if len(L2) > 0 else alignment.trace.shape[0] for L2 in [np.where(alignment.trace[:, L0] != -1)[0] for L0 in range(alignment.trace.shape[1])]]).item(), np.min([L3[-1] if len(L3) > 0 else -1 for L3 in [np.where(alignment.trace[:, L1] != -1)[0] for L1 in range(alignment.trace.shape[1])]]).item() + 1)"]
/-- assignments of find_terminal_gaps -/
def ftgAssign : List String := []
/-- assignments of get_codes -/
def getCodesAssign : List String := ["v0 = np.zeros((alignment.trace.shape[1], alignment.trace.shape[0]), dtype=np.int64)", "v0[L0] = np.int64(-1)", "v0[L0, alignment.trace[:, L0] != -1] = alignment.sequences[L0].code[alignment.trace[alignment.trace[:, L0] != -1, L0]]", "L0 in range(len(alignment.sequences))", "np.stack(v0)"]
/-- `if` tests of SubstitutionMatrix.__init__ -/
def matrixInitTests : List String := ["isinstance(score_matrix, dict)", "isinstance(score_matrix, np.ndarray)", "score_matrix.shape != (len(alphabet1), len(alphabet2))", "not np.issubdtype(score_matrix.dtype, np.integer)", "np.any(self._a3 == np.iinfo(np.int32).max) or np.any(self._a3 == np.iinfo(np.int32).min)", "isinstance(score_matrix, str)"]
/-- exception classes of SubstitutionMatrix.__init__ -/
def matrixInitRaises : List String := ["ValueError", "TypeError", "ValueError", "TypeError"]
/-- dtype conversion of the score matrix -/
def matrixAstype : List String := ["self._a3 = score_matrix.astype(np.int32)"]
/-- _fill_with_matrix_dict, statement by statement -/
def matrixFillDict : List String := ["self._a0 = np.zeros((len(self._a1), len(self._a2)), dtype=np.int32)", "self._a0[L0, L1] = int(p1[self._a1.decode(L0), self._a2.decode(L1)])", "L0 in range(len(self._a1))", "L1 in range(len(self._a2))"]
/-- dict_from_str, statement by statement -/
def matrixDictFromStr : List String := ["v0 = [L0.strip() for L0 in string.split('\\n')]", "v0 = [L1 for L1 in v0 if len(L1) != 0 and L1[0] != '#']", "v1 = {}", "v1[[L3.split()[0] for L3 in v0[1:]][L7], [L5 for L5 in v0[0].split()][L8]] = np.array([L6.split()[1:] for L6 in v0[1:]]).astype(int)[L7, L8]", "L7 in range(len([L2.split()[0] for L2 in v0[1:]]))", "L8 in range(len([L4 for L4 in v0[0].split()]))", "v1"]
/-- `get_trace_linear`, transliterated from tracetable.pyx: (trace bits, maximum). -/
def getTraceLinear (match_score gap_left_score gap_top_score : Int) : Nat × Int :=
  (if match_score > gap_left_score then (if match_score > gap_top_score then ((1 : Nat), match_score) else (if match_score = gap_top_score then ((5 : Nat), match_score) else ((4 : Nat), gap_top_score))) else (if match_score = gap_left_score then (if match_score > gap_top_score then ((3 : Nat), match_score) else (if match_score = gap_top_score then ((7 : Nat), match_score) else ((4 : Nat), gap_top_score))) else (if gap_left_score > gap_top_score then ((2 : Nat), gap_left_score) else (if gap_left_score = gap_top_score then ((6 : Nat), gap_left_score) else ((4 : Nat), gap_top_score)))))
/-- `get_trace_affine`, transliterated: the three decision trees (match, gap-left, gap-top table):
(bits contributed, maximum written to max_match_score[0], max_gap_left_score[0], max_gap_top_score[0]). -/
def getTraceAffineM (match_to_match_score gap_left_to_match_score gap_top_to_match_score match_to_gap_left_score gap_left_to_gap_left_score match_to_gap_top_score gap_top_to_gap_top_score : Int) : Nat × Int :=
  (if match_to_match_score > gap_left_to_match_score then (if match_to_match_score > gap_top_to_match_score then ((1 : Nat), match_to_match_score) else (if match_to_match_score = gap_top_to_match_score then ((5 : Nat), match_to_match_score) else ((4 : Nat), gap_top_to_match_score))) else (if match_to_match_score = gap_left_to_match_score then (if match_to_match_score > gap_top_to_match_score then ((3 : Nat), match_to_match_score) else (if match_to_match_score = gap_top_to_match_score then ((7 : Nat), match_to_match_score) else ((4 : Nat), gap_top_to_match_score))) else (if gap_left_to_match_score > gap_top_to_match_score then ((2 : Nat), gap_left_to_match_score) else (if gap_left_to_match_score = gap_top_to_match_score then ((6 : Nat), gap_left_to_match_score) else ((4 : Nat), gap_top_to_match_score)))))
def getTraceAffineG1 (match_to_match_score gap_left_to_match_score gap_top_to_match_score match_to_gap_left_score gap_left_to_gap_left_score match_to_gap_top_score gap_top_to_gap_top_score : Int) : Nat × Int :=
  (if match_to_gap_left_score > gap_left_to_gap_left_score then ((8 : Nat), match_to_gap_left_score) else (if match_to_gap_left_score < gap_left_to_gap_left_score then ((16 : Nat), gap_left_to_gap_left_score) else ((24 : Nat), match_to_gap_left_score)))
def getTraceAffineG2 (match_to_match_score gap_left_to_match_score gap_top_to_match_score match_to_gap_left_score gap_left_to_gap_left_score match_to_gap_top_score gap_top_to_gap_top_score : Int) : Nat × Int :=
  (if match_to_gap_top_score > gap_top_to_gap_top_score then ((32 : Nat), match_to_gap_top_score) else (if match_to_gap_top_score < gap_top_to_gap_top_score then ((64 : Nat), gap_top_to_gap_top_score) else ((96 : Nat), gap_top_to_gap_top_score)))
/-- the output slots of `get_trace_affine` in the order the trees write them -/
def getTraceAffineTargets : List String := ["max_match_score[0]", "max_gap_left_score[0]", "max_gap_top_score[0]"]
end BiotiteModel.Gen.C08

/- REGENERATED on every run by harness/props/c08.py from sequence/align/tracetable.pxd and pairwise.pyx. Do not edit. -/
namespace BiotiteModel.Gen.C08
/-- `TraceDirectionLinear` members: (name, bit value). -/
def traceLinear : List (String × Nat) := [("MATCH", 1), ("GAP_LEFT", 2), ("GAP_TOP", 4)]
/-- `TraceDirectionAffine` members. -/
def traceAffine : List (String × Nat) := [("MATCH_TO_MATCH", 1), ("GAP_LEFT_TO_MATCH", 2), ("GAP_TOP_TO_MATCH", 4), ("MATCH_TO_GAP_LEFT", 8), ("GAP_LEFT_TO_GAP_LEFT", 16), ("MATCH_TO_GAP_TOP", 32), ("GAP_TOP_TO_GAP_TOP", 64)]
/-- `TraceState` members. -/
def traceState : List (String × Nat) := [("NO_STATE", 0), ("MATCH_STATE", 1), ("GAP_LEFT_STATE", 2), ("GAP_TOP_STATE", 3)]
/-- bit width of the `trace_table` dtype in `align_optimal`. -/
def traceTableBits : Nat := 8
end BiotiteModel.Gen.C08

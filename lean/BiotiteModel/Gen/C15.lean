import BiotiteModel.Model.C15
/- REGENERATED on every run by harness/props/c15.py from structure/geometry.py and structure/box.py. Do not edit. -/
namespace BiotiteModel.Gen.C15
open BiotiteModel.C15
/-- constants and loop ranges as they are written in the source -/
def consts : Consts where
  boxPrecedence := .explicitFirst
  half := ((1 : Rat) / 2)
  halfStrict := true
  halfSub := ((1 : Rat) / 1)
  dispMod := ((1 : Rat) / 1)
  moveMod := ((1 : Rat) / 1)
  shiftI := [-1, 0]
  shiftJ := [-1, 0]
  shiftK := [-1, 0]
  orthoTol := ((1 : Rat) / 1000000)
  repLo := 0
  repHi := 1
/-- row pairs whose dot product `is_orthogonal` tests -/
def orthoPairs : List (Nat × Nat) := [(0, 1), (0, 2), (1, 2)]
/-- `repeat_box` hands its `amount` argument on to `repeat_box_coord` -/
def repeatBoxPassesAmount : Bool := true
/-- every `displacement(atomsI, atomsJ, box?)` call of distance / angle / dihedral: (I, J, passes `box` on) -/
def distanceCalls : List (Nat × Nat × Bool) := [(1, 2, true)]
def angleCalls : List (Nat × Nat × Bool) := [(1, 2, true), (3, 2, true)]
def dihedralCalls : List (Nat × Nat × Bool) := [(1, 2, true), (2, 3, true), (3, 4, true)]
/-- `unitcell_from_vectors`: rows (u, v) whose dot product gives alpha, beta, gamma ((9, 9) = not a dot product of two box vectors) -/
def unitcellAngleDots : List (Nat × Nat) := [(1, 2), (0, 2), (0, 1)]
/-- the round-off clean-up of `vectors_from_unitcell` compares with a tolerance built from the SUM of the lengths -/
def unitcellTolUsesSum : Bool := false
/-! ## formulas and structure (pass 7) -/
/-- the candidate shift of `_displacement_triclinic_box` for loop variables i, j, k -/
def triShift (i j k : Rat) (b : Box) : Vec := ⟨((((i * b.r0.x) + (j * b.r1.x)) + (k * b.r2.x))), ((((i * b.r0.y) + (j * b.r1.y)) + (k * b.r2.y))), ((((i * b.r0.z) + (j * b.r1.z)) + (k * b.r2.z)))⟩
def triSelect : List String := ["argmin"]
def triDiffsFrom : String := "fraction_to_coord"
def triKey : String := "vector_dot(c, c), c = a + s"
/-- `vectors_from_unitcell`: the array literal with the locals inlined (`cos`/`sin` values and `c_z` as parameters) -/
def cellBox (la lb lc ca cb cg sg cz : Rat) : Box := ⟨⟨(la), (0 : Rat), (0 : Rat)⟩, ⟨((lb * cg)), ((lb * sg)), (0 : Rat)⟩, ⟨((lc * cb)), (((lc * (ca - (cb * cg))) / sg)), cz⟩⟩
def cellCzSq (la lb lc ca cb cg sg : Rat) : Rat := (((lc * lc) - (((lc * cb)) * ((lc * cb)))) - ((((lc * (ca - (cb * cg))) / sg)) * (((lc * (ca - (cb * cg))) / sg))))
def cellDtype : String := "np.float32"
/-- `dihedral`: first and second argument of `arctan2`, locals inlined -/
def dihArg1 (v1 v2 v3 : Vec) : Rat := ((V3.dot (V3.cross ((V3.cross v1 v2)) ((V3.cross v2 v3))) v2))
def dihArg2 (v1 v2 v3 : Vec) : Rat := ((V3.dot ((V3.cross v1 v2)) ((V3.cross v2 v3))))
def dihNormed : List String := ["v1", "v2", "v3"]
def angleDot : List String := ["v1", "v2"]
def angleNormed : List String := ["v1", "v2"]
def angleClip : List String := ["-1", "1"]
def distanceDot : List String := ["v1", "v1"]
/-- `displacement`: the difference in the two shape branches -/
def dispDiffThen (v1 v2 : Vec) : Vec := (V3.sub v2 v1)
def dispDiffElse (v1 v2 : Vec) : Vec := (V3.neg (V3.sub v1 v2))
def dispDispatch : List (String × String) := [("ORTHO", "TRIC"), ("ORTHO", "TRIC"), ("ORTHO", "TRIC")]
def dispSteps : List String := ["coord_to_fraction", "mod", "is_orthogonal"]
def orthoSteps : List String := ["fraction_to_coord"]
def coordToFractionForm : List String := ["matmul", "coord", "linalg.inv(box)"]
def fractionToCoordForm : List String := ["matmul", "fraction", "box"]
def moveSteps : List String := ["coord_to_fraction", "fraction_to_coord"]
def orthoCmp : List String := ["Lt"]
def orthoCombine : List String := ["BitAnd"]
def volumeForm : List String := ["abs", "det"]
def repVec : List String := ["i", "j", "k"]
def repSumAxis : List String := ["-2"]
def repCatAxis : List String := ["-2"]
def repFirst : List String := ["coord"]
def repCount (amount : Int) : Int := (((1 : Int) + ((2 : Int) * amount)) ^ 3)
def repTypeCheck : List String := ["Integral"]
def repAdds : List String := ["Add"]
def rpbcPairs : List (List String) := [["0", "coord.shape[-2] - 1"], ["1", "coord.shape[-2]"]]
def rpbcDisp : List String := ["index_displacement", "box=box", "periodic=True"]
def rpbcCumsum : List String := ["cumsum", "axis=-2"]
def rpbcBase : List String := ["move_inside_box", "coord[..., 0:1, :]"]
def rpbcAssign : List (String × String) := [("OUT[..., 0:1, :]", "BASE"), ("OUT[..., 1:, :]", "BASE + CUM")]
def rpLoopCalls : List String := ["remove_pbc_from_coord", "centroid", "move_inside_box"]
def rpOutsideCalls : List String := []
def rpShift : List String := ["INBOX - CENTER"]
def rpSelection : List String := ["&= selection"]
def rpMasks : List String := ["get_molecule_masks", "get_chain_masks"]
def rpArgs : List String := ["COPY.coord[..., MASK, :]", "atoms.box"]
def indexWrappers : List (String × String × Nat) := [("index_displacement", "displacement", 2), ("index_distance", "distance", 2), ("index_angle", "angle", 3), ("index_dihedral", "dihedral", 4)]
def indexFirstCheck : List String := ["indices.shape[-1] != L1", "ValueError"]
def indexGather : List String := ["coord(atoms)[..., indices[:, COL], :]"]
def defaults : List (String × String × String) := [("displacement", "box", "None"), ("distance", "box", "None"), ("angle", "box", "None"), ("dihedral", "box", "None"), ("INDEX_DISPATCHER", "box", "None"), ("INDEX_DISPATCHER", "periodic", "False"), ("repeat_box", "amount", "1"), ("repeat_box_coord", "amount", "1"), ("remove_pbc", "selection", "None"), ("rotate_about_axis", "support", "None"), ("align_vectors", "origin_position", "None"), ("align_vectors", "target_position", "None"), ("orient_principal_components", "order", "None")]
def raises : List (String × List String) := [("displacement", ["ValueError", "ValueError"]), ("INDEX_DISPATCHER", ["ValueError", "ValueError"]), ("repeat_box", ["BadStructureError"]), ("repeat_box_coord", ["TypeError"]), ("remove_pbc", ["BadStructureError"]), ("translate", ["ValueError"]), ("rotate", ["ValueError"]), ("rotate_about_axis", ["ValueError"]), ("align_vectors", ["ValueError", "ValueError", "ValueError", "ValueError", "ValueError"]), ("orient_principal_components", ["ValueError", "ValueError", "ValueError", "ValueError"])]
end BiotiteModel.Gen.C15

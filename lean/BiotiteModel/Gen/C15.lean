import BiotiteModel.Model.C15
/- REGENERATED on every run by harness/props/c15.py from structure/geometry.py and structure/box.py. Do not edit. -/
namespace BiotiteModel.Gen.C15
open BiotiteModel.C15
/-- constants and loop ranges as they are written in the source -/
def consts : Consts where
  boxPrecedence := .explicitFirst
  half := ((1 : Rat) / 2)
  halfStrict := true
  halfSub := ((1 : Rat) / 1)
  dispMod := ((1 : Rat) / 1)
  moveMod := ((1 : Rat) / 1)
  shiftI := [-1, 0]
  shiftJ := [-1, 0]
  shiftK := [-1, 0]
  orthoTol := ((1 : Rat) / 1000000)
  repLo := 0
  repHi := 1
/-- row pairs whose dot product `is_orthogonal` tests -/
def orthoPairs : List (Nat × Nat) := [(0, 1), (0, 2), (1, 2)]
/-- `repeat_box` hands its `amount` argument on to `repeat_box_coord` -/
def repeatBoxPassesAmount : Bool := true
/-- every `displacement(atomsI, atomsJ, box?)` call of distance / angle / dihedral: (I, J, passes `box` on) -/
def distanceCalls : List (Nat × Nat × Bool) := [(1, 2, true)]
def angleCalls : List (Nat × Nat × Bool) := [(1, 2, true), (3, 2, true)]
def dihedralCalls : List (Nat × Nat × Bool) := [(1, 2, true), (2, 3, true), (3, 4, true)]
/-- `unitcell_from_vectors`: rows (u, v) whose dot product gives alpha, beta, gamma ((9, 9) = not a dot product of two box vectors) -/
def unitcellAngleDots : List (Nat × Nat) := [(1, 2), (0, 2), (0, 1)]
/-- the round-off clean-up of `vectors_from_unitcell` compares with a tolerance built from the SUM of the lengths -/
def unitcellTolUsesSum : Bool := false
end BiotiteModel.Gen.C15

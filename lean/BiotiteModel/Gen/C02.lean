/- REGENERATED on every run by harness/props/c02.py from structure/bonds.pyx. Do not edit. -/
namespace BiotiteModel.Gen.C02
/-- `BondType` members: (name, value). -/
def bondTypes : List (String × Nat) := [("ANY", 0), ("SINGLE", 1), ("DOUBLE", 2), ("TRIPLE", 3), ("QUADRUPLE", 4), ("AROMATIC_SINGLE", 5), ("AROMATIC_DOUBLE", 6), ("AROMATIC_TRIPLE", 7), ("COORDINATION", 8), ("AROMATIC", 9)]
/-- `BondType.without_aromaticity`: explicit branches (from, to) by value; every other member maps to itself. -/
def withoutAromaticity : List (Nat × Nat) := [(5, 1), (6, 2), (7, 3), (9, 0)]
/-- `BondList.remove_aromaticity`: the (aromatic, non-aromatic) pairs applied in order. -/
def removeAromaticity : List (Nat × Nat) := [(5, 1), (6, 2), (7, 3), (9, 0)]
/-- number of `>= len(BondType)` guards in the file (constructor and add_bond). -/
def typeGuards : Nat := 2
/-- control skeleton of `_to_positive_index` as written (conditions, assignment, returns). -/
def toPositiveIndexSkeleton : List String := ["if index < 0:", "pos_index = <uint32> (array_length + index)", "if pos_index < 0:", "return pos_index", "else:", "if <uint32> index >= array_length:", "return <uint32> index"]
/-! every modelled function of bonds.pyx: signature and canonical body (see harness/props/c02.py `_pyx_*`) -/
/-- `BondType.without_aromaticity`: (return C type, exception clause, [(parameter, C type, default)]) -/
def sig_BondType_without_aromaticity : String × String × List (String × String × String) := ("", "", [("self", "", "")])
def body_BondType_without_aromaticity : List String := ["if self == BondType.AROMATIC_SINGLE:", "  return BondType.SINGLE", "elif self == BondType.AROMATIC_DOUBLE:", "  return BondType.DOUBLE", "elif self == BondType.AROMATIC_TRIPLE:", "  return BondType.TRIPLE", "elif self == BondType.AROMATIC:", "  return BondType.ANY", "else:", "  return self"]
/-- exception classes `BondType.without_aromaticity` raises itself, in source order -/
def raises_BondType_without_aromaticity : List String := []
/-- `BondList.__init__`: (return C type, exception clause, [(parameter, C type, default)]) -/
def sig_dunder_initdunder : String × String × List (String × String × String) := ("", "", [("self", "", ""), ("a0", "uint32", ""), ("a1", "np.ndarray", "None")])
def body_dunder_initdunder : List String := ["self._atom_count = a0", "if a1 is not None and len(a1) > 0:", "  if a1.ndim != 2:", "    raise ValueError", "  self._bonds = np.zeros((a1.shape[0], 3), dtype=np.uint32)", "  if a1.shape[1] == 3:", "    self._bonds[:,:2] = np.sort(_to_positive_index_array(a1[:,:2], a0), axis=1)", "    if (a1[:, 2] >= len(BondType)).any():", "      raise ValueError", "    self._bonds[:,2] = a1[:, 2]", "  elif a1.shape[1] == 2:", "    self._bonds[:,:2] = np.sort(_to_positive_index_array(a1[:,:2], a0), axis=1)", "  else:", "    raise ValueError", "  self._remove_redundant_bonds()", "  self._max_bonds_per_atom = self._get_max_bonds_per_atom()", "else:", "  self._bonds = np.zeros((0, 3), dtype=np.uint32)", "  self._max_bonds_per_atom = 0"]
/-- exception classes `BondList.__init__` raises itself, in source order -/
def raises_dunder_initdunder : List String := ["ValueError", "ValueError", "ValueError"]
/-- `BondList.concatenate`: (return C type, exception clause, [(parameter, C type, default)]) -/
def sig_concatenate : String × String × List (String × String × String) := ("", "", [("a0", "", "")])
def body_concatenate : List String := ["if not isinstance(a0, Sequence):", "  a0 = list(a0)", "cdef np.ndarray v0 = np.concatenate([v1._bonds for v1 in a0])", "cdef int v2 = 0, v3 = 0", "cdef int v4 = 0", "for v1 in a0:", "  v3 = v2 + v1._bonds.shape[0]", "  v0[v2 : v3, :2] += v4", "  v4 += v1._atom_count", "  v2 = v3", "cdef v5 = BondList(v4)", "v5._bonds = v0", "v5._max_bonds_per_atom = max([v1._max_bonds_per_atom for v1 in a0])", "return v5"]
/-- exception classes `BondList.concatenate` raises itself, in source order -/
def raises_concatenate : List String := []
/-- `BondList.__copy_create__`: (return C type, exception clause, [(parameter, C type, default)]) -/
def sig_dunder_copy_createdunder : String × String × List (String × String × String) := ("", "", [("self", "", "")])
def body_dunder_copy_createdunder : List String := ["return BondList(self._atom_count)"]
/-- exception classes `BondList.__copy_create__` raises itself, in source order -/
def raises_dunder_copy_createdunder : List String := []
/-- `BondList.__copy_fill__`: (return C type, exception clause, [(parameter, C type, default)]) -/
def sig_dunder_copy_filldunder : String × String × List (String × String × String) := ("", "", [("self", "", ""), ("a0", "", "")])
def body_dunder_copy_filldunder : List String := ["a0._bonds = self._bonds.copy()", "a0._max_bonds_per_atom = self._max_bonds_per_atom"]
/-- exception classes `BondList.__copy_fill__` raises itself, in source order -/
def raises_dunder_copy_filldunder : List String := []
/-- `BondList.offset_indices`: (return C type, exception clause, [(parameter, C type, default)]) -/
def sig_offset_indices : String × String × List (String × String × String) := ("", "", [("self", "", ""), ("a0", "int", "")])
def body_offset_indices : List String := ["if a0 < 0:", "  raise ValueError", "self._bonds[:,:2] += a0", "self._atom_count += a0"]
/-- exception classes `BondList.offset_indices` raises itself, in source order -/
def raises_offset_indices : List String := ["ValueError"]
/-- `BondList.as_array`: (return C type, exception clause, [(parameter, C type, default)]) -/
def sig_as_array : String × String × List (String × String × String) := ("", "", [("self", "", "")])
def body_as_array : List String := ["return self._bonds.copy()"]
/-- exception classes `BondList.as_array` raises itself, in source order -/
def raises_as_array : List String := []
/-- `BondList.as_set`: (return C type, exception clause, [(parameter, C type, default)]) -/
def sig_as_set : String × String × List (String × String × String) := ("", "", [("self", "", "")])
def body_as_set : List String := ["cdef uint32[:,:] v0 = self._bonds", "cdef int v1", "cdef set v2 = set()", "for v1 in range(v0.shape[0]):", "  v2.add((v0[v1,0], v0[v1,1], v0[v1,2]))", "return v2"]
/-- exception classes `BondList.as_set` raises itself, in source order -/
def raises_as_set : List String := []
/-- `BondList.as_graph`: (return C type, exception clause, [(parameter, C type, default)]) -/
def sig_as_graph : String × String × List (String × String × String) := ("", "", [("self", "", "")])
def body_as_graph : List String := ["cdef int v0", "cdef uint32[:,:] v1 = self._bonds", "v2 = nx.Graph()", "cdef list v3 = [None] * v1.shape[0]", "for v0 in range(v1.shape[0]):", "  v3[v0] = (v1[v0,0], v1[v0,1], {\"bond_type\": BondType(v1[v0,2])})", "v2.add_edges_from(v3)", "return v2"]
/-- exception classes `BondList.as_graph` raises itself, in source order -/
def raises_as_graph : List String := []
/-- `BondList.remove_aromaticity`: (return C type, exception clause, [(parameter, C type, default)]) -/
def sig_remove_aromaticity : String × String × List (String × String × String) := ("", "", [("self", "", "")])
def body_remove_aromaticity : List String := ["v0 = self._bonds[:,2]", "for v1, v2 in [(BondType.AROMATIC_SINGLE, BondType.SINGLE), (BondType.AROMATIC_DOUBLE, BondType.DOUBLE), (BondType.AROMATIC_TRIPLE, BondType.TRIPLE), (BondType.AROMATIC, BondType.ANY),]:", "  v0[v0 == v1] = v2"]
/-- exception classes `BondList.remove_aromaticity` raises itself, in source order -/
def raises_remove_aromaticity : List String := []
/-- `BondList.remove_bond_order`: (return C type, exception clause, [(parameter, C type, default)]) -/
def sig_remove_bond_order : String × String × List (String × String × String) := ("", "", [("self", "", "")])
def body_remove_bond_order : List String := ["self._bonds[:,2] = BondType.ANY"]
/-- exception classes `BondList.remove_bond_order` raises itself, in source order -/
def raises_remove_bond_order : List String := []
/-- `BondList.get_atom_count`: (return C type, exception clause, [(parameter, C type, default)]) -/
def sig_get_atom_count : String × String × List (String × String × String) := ("", "", [("self", "", "")])
def body_get_atom_count : List String := ["return self._atom_count"]
/-- exception classes `BondList.get_atom_count` raises itself, in source order -/
def raises_get_atom_count : List String := []
/-- `BondList.get_bond_count`: (return C type, exception clause, [(parameter, C type, default)]) -/
def sig_get_bond_count : String × String × List (String × String × String) := ("", "", [("self", "", "")])
def body_get_bond_count : List String := ["return len(self._bonds)"]
/-- exception classes `BondList.get_bond_count` raises itself, in source order -/
def raises_get_bond_count : List String := []
/-- `BondList.get_bonds`: (return C type, exception clause, [(parameter, C type, default)]) -/
def sig_get_bonds : String × String × List (String × String × String) := ("", "", [("self", "", ""), ("a0", "int32", "")])
def body_get_bonds : List String := ["cdef int v0=0, v1=0", "cdef uint32 v2 = _to_positive_index(a0, self._atom_count)", "cdef uint32[:,:] v3 = self._bonds", "cdef np.ndarray v4 = np.zeros(self._max_bonds_per_atom, dtype=np.uint32)", "cdef uint32[:] v5 = v4", "cdef np.ndarray v6 = np.zeros(self._max_bonds_per_atom, dtype=np.uint8)", "cdef uint8[:] v7 = v6", "for v0 in range(v3.shape[0]):", "  if v3[v0,0] == v2:", "    v5[v1] = v3[v0,1]", "    v7[v1] = v3[v0,2]", "    v1 += 1", "  elif v3[v0,1] == v2:", "    v5[v1] = v3[v0,0]", "    v7[v1] = v3[v0,2]", "    v1 += 1", "v4 = v4[:v1]", "v6 = v6[:v1]", "return v4, v6"]
/-- exception classes `BondList.get_bonds` raises itself, in source order -/
def raises_get_bonds : List String := []
/-- `BondList.get_all_bonds`: (return C type, exception clause, [(parameter, C type, default)]) -/
def sig_get_all_bonds : String × String × List (String × String × String) := ("", "", [("self", "", "")])
def body_get_all_bonds : List String := ["cdef int v0=0", "cdef uint32 v1, v2, v3", "cdef uint32[:,:] v4 = self._bonds", "cdef np.ndarray v5 = np.full((self._atom_count, self._max_bonds_per_atom), -1, dtype=np.int32)", "cdef int32[:,:] v6 = v5", "cdef np.ndarray v7 = np.full((self._atom_count, self._max_bonds_per_atom), -1, dtype=np.int8)", "cdef int8[:,:] v8 = v7", "cdef np.ndarray v9 = np.zeros(self._atom_count, dtype=np.uint32)", "cdef uint32[:] v10 = v9", "for v0 in range(v4.shape[0]):", "  v1 = v4[v0,0]", "  v2 = v4[v0,1]", "  v3 = v4[v0,2]", "  v6[v1, v10[v1]] = v2", "  v6[v2, v10[v2]] = v1", "  v8[v1, v10[v1]] = v3", "  v8[v2, v10[v2]] = v3", "  v10[v1] += 1", "  v10[v2] += 1", "return v5, v7"]
/-- exception classes `BondList.get_all_bonds` raises itself, in source order -/
def raises_get_all_bonds : List String := []
/-- `BondList.adjacency_matrix`: (return C type, exception clause, [(parameter, C type, default)]) -/
def sig_adjacency_matrix : String × String × List (String × String × String) := ("", "", [("self", "", "")])
def body_adjacency_matrix : List String := ["v0 = np.zeros((self._atom_count, self._atom_count), dtype=bool)", "v0[self._bonds[:,0], self._bonds[:,1]] = True", "v0[self._bonds[:,1], self._bonds[:,0]] = True", "return v0"]
/-- exception classes `BondList.adjacency_matrix` raises itself, in source order -/
def raises_adjacency_matrix : List String := []
/-- `BondList.bond_type_matrix`: (return C type, exception clause, [(parameter, C type, default)]) -/
def sig_bond_type_matrix : String × String × List (String × String × String) := ("", "", [("self", "", "")])
def body_bond_type_matrix : List String := ["v0 = np.full((self._atom_count, self._atom_count), -1, dtype=np.int8)", "v0[self._bonds[:,0], self._bonds[:,1]] = self._bonds[:,2]", "v0[self._bonds[:,1], self._bonds[:,0]] = self._bonds[:,2]", "return v0"]
/-- exception classes `BondList.bond_type_matrix` raises itself, in source order -/
def raises_bond_type_matrix : List String := []
/-- `BondList.add_bond`: (return C type, exception clause, [(parameter, C type, default)]) -/
def sig_add_bond : String × String × List (String × String × String) := ("", "", [("self", "", ""), ("a0", "int32", ""), ("a1", "int32", ""), ("a2", "", "BondType.ANY")])
def body_add_bond : List String := ["if a2 >= len(BondType):", "  raise ValueError", "cdef uint32 v0 = _to_positive_index(a0, self._atom_count)", "cdef uint32 v1 = _to_positive_index(a1, self._atom_count)", "_sort(&v0, &v1)", "cdef int v2", "cdef uint32[:,:] v3 = self._bonds", "cdef bint v4 = False", "for v2 in range(v3.shape[0]):", "  if (v3[v2,0] == v0 and v3[v2,1] == v1):", "    v4 = True", "    v3[v2,2] = int(a2)", "    break", "if not v4:", "  self._bonds = np.append(self._bonds, np.array([(v0, v1, int(a2))], dtype=np.uint32), axis=0)", "  self._max_bonds_per_atom = self._get_max_bonds_per_atom()"]
/-- exception classes `BondList.add_bond` raises itself, in source order -/
def raises_add_bond : List String := ["ValueError"]
/-- `BondList.remove_bond`: (return C type, exception clause, [(parameter, C type, default)]) -/
def sig_remove_bond : String × String × List (String × String × String) := ("", "", [("self", "", ""), ("a0", "int32", ""), ("a1", "int32", "")])
def body_remove_bond : List String := ["cdef uint32 v0 = _to_positive_index(a0, self._atom_count)", "cdef uint32 v1 = _to_positive_index(a1, self._atom_count)", "_sort(&v0, &v1)", "cdef int v2", "cdef uint32[:,:] v3 = self._bonds", "for v2 in range(v3.shape[0]):", "  if (v3[v2,0] == v0 and v3[v2,1] == v1):", "    self._bonds = np.delete(self._bonds, v2, axis=0)"]
/-- exception classes `BondList.remove_bond` raises itself, in source order -/
def raises_remove_bond : List String := []
/-- `BondList.remove_bonds_to`: (return C type, exception clause, [(parameter, C type, default)]) -/
def sig_remove_bonds_to : String × String × List (String × String × String) := ("", "", [("self", "", ""), ("a0", "int32", "")])
def body_remove_bonds_to : List String := ["cdef uint32 v0 = _to_positive_index(a0, self._atom_count)", "cdef np.ndarray v1 = np.ones(len(self._bonds), dtype=np.uint8)", "cdef uint8[:] v2 = v1", "cdef int v3", "cdef uint32[:,:] v4 = self._bonds", "for v3 in range(v4.shape[0]):", "  if (v4[v3,0] == v0 or v4[v3,1] == v0):", "    v2[v3] = False", "self._bonds = self._bonds[v1.astype(bool, copy=False)]"]
/-- exception classes `BondList.remove_bonds_to` raises itself, in source order -/
def raises_remove_bonds_to : List String := []
/-- `BondList.remove_bonds`: (return C type, exception clause, [(parameter, C type, default)]) -/
def sig_remove_bonds : String × String × List (String × String × String) := ("", "", [("self", "", ""), ("a0", "", "")])
def body_remove_bonds : List String := ["cdef int v0=0, v1=0", "cdef uint32[:,:] v2 = self._bonds", "cdef uint32[:,:] v3 = a0._bonds", "cdef np.ndarray v4 = np.ones(v2.shape[0], dtype=np.uint8)", "cdef uint8[:] v5 = v4", "for v0 in range(v2.shape[0]):", "  for v1 in range(v3.shape[0]):", "    if v2[v0,0] == v3[v1,0] and v2[v0,1] == v3[v1,1]:", "        v5[v0] = False", "self._bonds = self._bonds[v4.astype(bool, copy=False)]"]
/-- exception classes `BondList.remove_bonds` raises itself, in source order -/
def raises_remove_bonds : List String := []
/-- `BondList.merge`: (return C type, exception clause, [(parameter, C type, default)]) -/
def sig_merge : String × String × List (String × String × String) := ("", "", [("self", "", ""), ("a0", "", "")])
def body_merge : List String := ["return BondList(max(self._atom_count, a0._atom_count), np.concatenate([a0.as_array(), self.as_array()], axis=0))"]
/-- exception classes `BondList.merge` raises itself, in source order -/
def raises_merge : List String := []
/-- `BondList.__add__`: (return C type, exception clause, [(parameter, C type, default)]) -/
def sig_dunder_adddunder : String × String × List (String × String × String) := ("", "", [("self", "", ""), ("a0", "", "")])
def body_dunder_adddunder : List String := ["return BondList.concatenate([self, a0])"]
/-- exception classes `BondList.__add__` raises itself, in source order -/
def raises_dunder_adddunder : List String := []
/-- `BondList.__getitem__`: (return C type, exception clause, [(parameter, C type, default)]) -/
def sig_dunder_getitemdunder : String × String × List (String × String × String) := ("", "", [("self", "", ""), ("a0", "", "")])
def body_dunder_getitemdunder : List String := ["cdef uint32[:,:] v0", "cdef int v1", "cdef uint32* v2", "cdef uint32* v3", "cdef np.ndarray v4", "cdef uint8[:] v5", "cdef int32[:] v6", "cdef int32 v7, v8", "cdef np.ndarray v9", "cdef uint8[:] v10", "cdef np.ndarray v11", "cdef uint32[:] v12", "if isinstance(a0, numbers.Integral):", "  return self.get_bonds(a0)", "elif isinstance(a0, np.ndarray) and a0.dtype == bool:", "  v13 = self.copy()", "  v0 = v13._bonds", "  v9 = np.frombuffer(a0, dtype=np.uint8)", "  v11 = np.cumsum(~v9.astype(bool, v13=False), dtype=np.uint32)", "  v4 = np.ones(v0.shape[0], dtype=np.uint8)", "  v5 = v4", "  v10 = v9", "  v12 = v11", "  for v1 in range(v0.shape[0]):", "    v2 = &v0[v1,0]", "    v3 = &v0[v1,1]", "    if v10[v2[0]] and v10[v3[0]]:", "      v2[0] -= v12[v2[0]]", "      v3[0] -= v12[v3[0]]", "    else:", "      v5[v1] = False", "  v13._bonds = v13._bonds[v4.astype(bool, v13=False)]", "  v13._atom_count = len(np.nonzero(v9)[0])", "  v13._max_bonds_per_atom = v13._get_max_bonds_per_atom()", "  return v13", "else:", "  v13 = self.copy()", "  v0 = v13._bonds", "  a0 = _to_index_array(a0, self._atom_count)", "  a0 = _to_positive_index_array(a0, self._atom_count)", "  v6 = _invert_index(a0, self._atom_count)", "  v4 = np.ones(v0.shape[0], dtype=np.uint8)", "  v5 = v4", "  for v1 in range(v0.shape[0]):", "    v2 = &v0[v1,0]", "    v3 = &v0[v1,1]", "    v7 = v6[v2[0]]", "    v8 = v6[v3[0]]", "    if v7 != -1 and v8 != -1:", "      v2[0] = <int32>v7", "      v3[0] = <int32>v8", "    else:", "      v5[v1] = False", "  v13._bonds = v13._bonds[v4.astype(bool, v13=False)]", "  v13._bonds[:,:2] = np.sort(v13._bonds[:,:2], axis=1)", "  v13._atom_count = len(a0)", "  v13._max_bonds_per_atom = v13._get_max_bonds_per_atom()", "  return v13"]
/-- exception classes `BondList.__getitem__` raises itself, in source order -/
def raises_dunder_getitemdunder : List String := []
/-- `BondList.__iter__`: (return C type, exception clause, [(parameter, C type, default)]) -/
def sig_dunder_iterdunder : String × String × List (String × String × String) := ("", "", [("self", "", "")])
def body_dunder_iterdunder : List String := ["raise TypeError"]
/-- exception classes `BondList.__iter__` raises itself, in source order -/
def raises_dunder_iterdunder : List String := ["TypeError"]
/-- `BondList.__str__`: (return C type, exception clause, [(parameter, C type, default)]) -/
def sig_dunder_strdunder : String × String × List (String × String × String) := ("", "", [("self", "", "")])
def body_dunder_strdunder : List String := ["return str(self.as_array())"]
/-- exception classes `BondList.__str__` raises itself, in source order -/
def raises_dunder_strdunder : List String := []
/-- `BondList.__eq__`: (return C type, exception clause, [(parameter, C type, default)]) -/
def sig_dunder_eqdunder : String × String × List (String × String × String) := ("", "", [("self", "", ""), ("a0", "", "")])
def body_dunder_eqdunder : List String := ["if not isinstance(a0, BondList):", "  return False", "return (self._atom_count == a0._atom_count and self.as_set() == a0.as_set())"]
/-- exception classes `BondList.__eq__` raises itself, in source order -/
def raises_dunder_eqdunder : List String := []
/-- `BondList.__contains__`: (return C type, exception clause, [(parameter, C type, default)]) -/
def sig_dunder_containsdunder : String × String × List (String × String × String) := ("", "", [("self", "", ""), ("a0", "", "")])
def body_dunder_containsdunder : List String := ["if not isinstance(a0, tuple) and len(tuple) != 2:", "  raise TypeError", "cdef int v0=0", "cdef uint32 v1, v2", "cdef uint32 v3 = min(a0)", "cdef uint32 v4 = max(a0)", "cdef uint32[:,:] v5 = self._bonds", "for v0 in range(v5.shape[0]):", "  v1 = v5[v0,0]", "  v2 = v5[v0,1]", "  if v3 == v1 and v4 == v2:", "    return True", "return False"]
/-- exception classes `BondList.__contains__` raises itself, in source order -/
def raises_dunder_containsdunder : List String := ["TypeError"]
/-- `BondList._get_max_bonds_per_atom`: (return C type, exception clause, [(parameter, C type, default)]) -/
def sig_get_max_bonds_per_atom : String × String × List (String × String × String) := ("", "", [("self", "", "")])
def body_get_max_bonds_per_atom : List String := ["if self._atom_count == 0:", "  return 0", "cdef int v0", "cdef uint32[:,:] v1 = self._bonds", "cdef np.ndarray v2 = np.zeros(self._atom_count, dtype=np.uint32)", "cdef uint32[:] v3 = v2", "for v0 in range(v1.shape[0]):", "  v3[v1[v0,0]] += 1", "  v3[v1[v0,1]] += 1", "return np.max(v3)"]
/-- exception classes `BondList._get_max_bonds_per_atom` raises itself, in source order -/
def raises_get_max_bonds_per_atom : List String := []
/-- `BondList._remove_redundant_bonds`: (return C type, exception clause, [(parameter, C type, default)]) -/
def sig_remove_redundant_bonds : String × String × List (String × String × String) := ("", "", [("self", "", "")])
def body_remove_redundant_bonds : List String := ["cdef int v0", "cdef uint32[:,:] v1 = self._bonds", "cdef np.ndarray v2 = np.ones(v1.shape[0], dtype=np.uint8)", "cdef uint8[:] v3 = v2", "cdef ptr[:] v4 = np.zeros(self._atom_count, dtype=np.uint64)", "cdef int[:] v5 = np.zeros(self._atom_count, dtype=np.int32)", "cdef uint32 v6, v7", "cdef uint32* v8", "cdef int v9", "try:", "  for v0 in range(v1.shape[0]):", "    v6 = v1[v0,0]", "    v7 = v1[v0,1]", "    if _in_array(<uint32*>v4[v6], v7, v5[v6]):", "        v3[v0] = False", "    else:", "      v9 = v5[v6] +1", "      v8 = <uint32*>v4[v6]", "      v8 = <uint32*>realloc(v8, v9 * sizeof(uint32))", "      if not v8:", "        raise MemoryError", "      v8[v9-1] = v7", "      v4[v6] = <ptr>v8", "      v5[v6] = v9", "finally:", "  for v10 in range(v4.shape[0]):", "    free(<int*>v4[v10])", "self._bonds = self._bonds[v2.astype(bool, copy=False)]"]
/-- exception classes `BondList._remove_redundant_bonds` raises itself, in source order -/
def raises_remove_redundant_bonds : List String := ["MemoryError"]
/-- `_to_positive_index`: (return C type, exception clause, [(parameter, C type, default)]) -/
def sig_to_positive_index : String × String × List (String × String × String) := ("uint32", "except-1", [("a0", "int32", ""), ("a1", "uint32", "")])
def body_to_positive_index : List String := ["cdef uint32 v0", "if a0 < 0:", "  v0 = <uint32> (a1 + a0)", "  if v0 < 0:", "    raise IndexError", "  return v0", "else:", "  if <uint32> a0 >= a1:", "    raise IndexError", "  return <uint32> a0"]
/-- exception classes `_to_positive_index` raises itself, in source order -/
def raises_to_positive_index : List String := ["IndexError", "IndexError"]
/-- `_to_positive_index_array`: (return C type, exception clause, [(parameter, C type, default)]) -/
def sig_to_positive_index_array : String × String × List (String × String × String) := ("", "", [("a0", "", ""), ("a1", "", "")])
def body_to_positive_index_array : List String := ["a0 = a0.copy()", "v0 = a0.shape", "a0 = a0.flatten()", "v1 = a0 < 0", "a0[v1] = a1 + a0[v1]", "if (a0 < 0).any():", "  raise IndexError", "if (a0 >= a1).any():", "  raise IndexError", "return a0.reshape(v0)"]
/-- exception classes `_to_positive_index_array` raises itself, in source order -/
def raises_to_positive_index_array : List String := ["IndexError", "IndexError"]
/-- `_to_index_array`: (return C type, exception clause, [(parameter, C type, default)]) -/
def sig_to_index_array : String × String × List (String × String × String) := ("", "", [("a0", "object", ""), ("a1", "uint32", "")])
def body_to_index_array : List String := ["if isinstance(a0, np.ndarray) and np.issubdtype(a0.dtype, np.integer):", "  return a0", "else:", "  v0 = np.arange(a1, dtype=np.uint32)", "  return v0[a0]"]
/-- exception classes `_to_index_array` raises itself, in source order -/
def raises_to_index_array : List String := []
/-- `_in_array`: (return C type, exception clause, [(parameter, C type, default)]) -/
def sig_in_array : String × String × List (String × String × String) := ("bint", "", [("a0", "uint32*", ""), ("a1", "uint32", ""), ("a2", "int", "")])
def body_in_array : List String := ["cdef int v0 = 0", "if a0 == NULL:", "  return False", "for v0 in range(a2):", "  if a0[v0] == a1:", "    return True", "return False"]
/-- exception classes `_in_array` raises itself, in source order -/
def raises_in_array : List String := []
/-- `_sort`: (return C type, exception clause, [(parameter, C type, default)]) -/
def sig_sort : String × String × List (String × String × String) := ("void", "", [("a0", "uint32*", ""), ("a1", "uint32*", "")])
def body_sort : List String := ["cdef uint32 v0", "if a0[0] > a1[0]:", "  v0 = a0[0]", "  a0[0] = a1[0]", "  a1[0] = v0"]
/-- exception classes `_sort` raises itself, in source order -/
def raises_sort : List String := []
/-- `_invert_index`: (return C type, exception clause, [(parameter, C type, default)]) -/
def sig_invert_index : String × String × List (String × String × String) := ("", "", [("a0", "IndexType[:]", ""), ("a1", "uint32", "")])
def body_invert_index : List String := ["cdef int32 v0", "cdef IndexType v1", "v2 = np.full(a1, -1, dtype=np.int32)", "cdef int32[:] v3 = v2", "for v0 in range(a0.shape[0]):", "  v1 = a0[v0]", "  if v3[v1] != -1:", "    raise NotImplementedError", "  v3[v1] = v0", "return v2"]
/-- exception classes `_invert_index` raises itself, in source order -/
def raises_invert_index : List String := ["NotImplementedError"]
end BiotiteModel.Gen.C02

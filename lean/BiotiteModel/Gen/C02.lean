/- REGENERATED on every run by harness/props/c02.py from structure/bonds.pyx. Do not edit. -/
namespace BiotiteModel.Gen.C02
/-- `BondType` members: (name, value). -/
def bondTypes : List (String × Nat) := [("ANY", 0), ("SINGLE", 1), ("DOUBLE", 2), ("TRIPLE", 3), ("QUADRUPLE", 4), ("AROMATIC_SINGLE", 5), ("AROMATIC_DOUBLE", 6), ("AROMATIC_TRIPLE", 7), ("COORDINATION", 8), ("AROMATIC", 9)]
/-- `BondType.without_aromaticity`: explicit branches (from, to) by value; every other member maps to itself. -/
def withoutAromaticity : List (Nat × Nat) := [(5, 1), (6, 2), (7, 3), (9, 0)]
/-- `BondList.remove_aromaticity`: the (aromatic, non-aromatic) pairs applied in order. -/
def removeAromaticity : List (Nat × Nat) := [(5, 1), (6, 2), (7, 3), (9, 0)]
/-- number of `>= len(BondType)` guards in the file (constructor and add_bond). -/
def typeGuards : Nat := 2
/-- control skeleton of `_to_positive_index` as written (conditions, assignment, returns). -/
def toPositiveIndexSkeleton : List String := ["if index < 0:", "pos_index = <uint32> (array_length + index)", "if pos_index < 0:", "return pos_index", "else:", "if <uint32> index >= array_length:", "return <uint32> index"]
end BiotiteModel.Gen.C02

/- REGENERATED on every run by harness/props/c06.py from structure/io/pdbx/cif.py (Python ast). Do not edit. -/
import BiotiteModel.Model.C06
namespace BiotiteModel.Gen.C06
open BiotiteModel.C06
/-- The if/elif chain of `_escape`: (test, returned expression), in source order. -/
def escapeBranches : List (Cond × Act) := [
  ((.hasChar '\n'), .multiline),
  ((.and (.hasChar q1) (.hasChar q2)), .multiline),
  (.isEmpty, (.literal "''")),
  ((.hasChar q1), (.quote q2)),
  ((.hasChar q2), (.quote q1)),
  ((.firstIs '_'), (.quote q1)),
  ((.hasChar ' '), (.quote q1)),
  ((.hasChar '\t'), (.quote q1)),
  (.hasWs, (.quote q1)),
  ((.or (.firstIn ['#', ';']) (.startsWithAny ["data_", "loop_"])), (.quote q1))
]
/-- The final `else` of `_escape`. -/
def escapeDefault : Act := .asIs
/-- `_multiline`: prefix and suffix around the value. -/
def multilinePrefix : String := "\n;"
def multilineSuffix : String := "\n;\n"
/-- Every test of a first character / prefix that the reader functions of cif.py perform: (function, test). -/
def readerHeadTests : List (String × Cond) := [
  ("_is_empty", (.firstIs '#')),
  ("_parse_data_block_name", (.startsWith "data_")),
  ("_parse_category_name", (.firstIs '_')),
  ("_is_loop_start", (.startsWith "loop_")),
  ("_to_single", (.firstIs ';')),
  ("_split_one_line", (.firstIs ';')),
  ("_split_one_line", (.firstIn [q1, q2])),
  ("_deserialize_looped", (.firstIs '_'))
]
/-! Fingerprints of every anchored function and the literals the model hard-codes (props/c06_gen.py). -/
def fp_bcif_BinaryCIFBlockU_containsU : Fp := { params := [("key", "<required>")], strs := ["_"], ints := [], cmps := [], bools := [], raises := [], calls := ["__contains__", "super"] }
def fp_bcif_BinaryCIFBlockU_delitemU : Fp := { params := [("key", "<required>")], strs := ["_"], ints := [], cmps := [], bools := [], raises := ["KeyError"], calls := ["__delitem__", "super"] }
def fp_bcif_BinaryCIFBlockU_getitemU : Fp := { params := [("key", "<required>")], strs := ["_"], ints := [], cmps := [], bools := [], raises := ["KeyError"], calls := ["__getitem__", "super"] }
def fp_bcif_BinaryCIFBlockU_initU : Fp := { params := [("categories", "None")], strs := ["_"], ints := [], cmps := ["Is"], bools := [], raises := [], calls := ["__init__", "super", "items"] }
def fp_bcif_BinaryCIFBlockU_iterU : Fp := { params := [], strs := ["_"], ints := [], cmps := [], bools := [], raises := [], calls := ["removeprefix", "__iter__", "super"] }
def fp_bcif_BinaryCIFBlockU_setitemU : Fp := { params := [("key", "<required>"), ("element", "<required>")], strs := ["_"], ints := [], cmps := [], bools := [], raises := ["KeyError"], calls := ["__setitem__", "super"] }
def fp_bcif_BinaryCIFBlock_deserialize : Fp := { params := [("content", "<required>")], strs := ["_", "categories", "name"], ints := [], cmps := [], bools := [], raises := [], calls := ["BinaryCIFBlock", "removeprefix", "items", "_deserialize_elements"] }
def fp_bcif_BinaryCIFBlock_serialize : Fp := { params := [], strs := ["categories", "name"], ints := [], cmps := [], bools := [], raises := [], calls := ["_serialize_elements"] }
def fp_bcif_BinaryCIFCategoryU_delitemU : Fp := { params := [("key", "<required>")], strs := [], ints := [], cmps := [], bools := [], raises := [], calls := ["__delitem__", "super"] }
def fp_bcif_BinaryCIFCategoryU_initU : Fp := { params := [("columns", "None"), ("row_count", "None")], strs := [], ints := [], cmps := ["Is"], bools := ["Not"], raises := [], calls := ["isinstance", "BinaryCIFColumn", "items", "__init__", "super"] }
def fp_bcif_BinaryCIFCategoryU_setitemU : Fp := { params := [("key", "<required>"), ("element", "<required>")], strs := [], ints := [], cmps := [], bools := ["Not"], raises := [], calls := ["isinstance", "BinaryCIFColumn", "__setitem__", "super"] }
def fp_bcif_BinaryCIFCategory_deserialize : Fp := { params := [("content", "<required>")], strs := ["columns", "name", "rowCount"], ints := [], cmps := [], bools := [], raises := [], calls := ["BinaryCIFCategory", "_deserialize_elements"] }
def fp_bcif_BinaryCIFCategory_row_count : Fp := { params := [], strs := [], ints := [], cmps := ["Is"], bools := [], raises := [], calls := ["len", "next", "iter", "values"] }
def fp_bcif_BinaryCIFCategory_serialize : Fp := { params := [], strs := ["rowCount", "columns", "name"], ints := [0], cmps := ["Eq", "Is", "NotEq"], bools := [], raises := ["SerializationError", "SerializationError"], calls := ["len", "items", "len", "len", "_serialize_elements"] }
def fp_bcif_BinaryCIFColumnU_eqU : Fp := { params := [("other", "<required>")], strs := [], ints := [], cmps := ["NotEq", "NotEq"], bools := ["Not"], raises := [], calls := ["isinstance", "type"] }
def fp_bcif_BinaryCIFColumnU_initU : Fp := { params := [("data", "<required>"), ("mask", "None")], strs := [], ints := [], cmps := ["IsNot", "NotEq"], bools := ["Not", "Not"], raises := ["IndexError"], calls := ["isinstance", "BinaryCIFData", "isinstance", "BinaryCIFData", "len", "len"] }
def fp_bcif_BinaryCIFColumn_as_array : Fp := { params := [("dtype", "None"), ("masked_value", "None")], strs := [".", "?", "U"], ints := [4], cmps := ["Is", "Is", "Is", "Eq", "Eq", "Lt", "Eq", "Eq", "Eq", "Is", "Eq", "Eq", "Is", "Eq"], bools := [], raises := [], calls := ["astype", "issubdtype", "astype", "str", "len", "astype", "len", "dtype", "astype", "astype", "zeros", "len", "full", "len", "astype"] }
def fp_bcif_BinaryCIFColumn_as_item : Fp := { params := [], strs := [".", "?"], ints := [], cmps := ["Is", "Is", "Eq", "Eq", "Eq"], bools := ["Or"], raises := [], calls := ["item", "item", "item"] }
def fp_bcif_BinaryCIFColumn_deserialize : Fp := { params := [("content", "<required>")], strs := ["data", "mask", "mask"], ints := [], cmps := ["IsNot"], bools := [], raises := [], calls := ["BinaryCIFColumn", "deserialize", "deserialize"] }
def fp_bcif_BinaryCIFColumn_serialize : Fp := { params := [], strs := ["data", "mask"], ints := [], cmps := ["IsNot"], bools := [], raises := [], calls := ["serialize", "serialize"] }
def fp_bcif_BinaryCIFDataU_eqU : Fp := { params := [("other", "<required>")], strs := [], ints := [], cmps := ["NotEq"], bools := ["Not", "Not"], raises := [], calls := ["isinstance", "type", "array_equal"] }
def fp_bcif_BinaryCIFDataU_initU : Fp := { params := [("array", "<required>"), ("encoding", "None")], strs := [], ints := [], cmps := ["Is"], bools := ["Or", "Not"], raises := ["ValueError"], calls := ["isinstance", "isinstance", "asarray", "issubdtype", "create_uncompressed_encoding", "list"] }
def fp_bcif_BinaryCIFData_deserialize : Fp := { params := [("content", "<required>")], strs := ["encoding", "data"], ints := [], cmps := [], bools := [], raises := [], calls := ["deserialize_encoding", "BinaryCIFData", "decode_stepwise"] }
def fp_bcif_BinaryCIFData_serialize : Fp := { params := [], strs := ["data", "encoding"], ints := [], cmps := [], bools := ["Not"], raises := ["SerializationError"], calls := ["encode_stepwise", "isinstance", "serialize"] }
def fp_bcif_BinaryCIFFileU_copy_fillU : Fp := { params := [("clone", "<required>")], strs := [], ints := [], cmps := [], bools := [], raises := [], calls := ["__copy_fill__", "super", "deepcopy"] }
def fp_bcif_BinaryCIFFileU_initU : Fp := { params := [("blocks", "None")], strs := [], ints := [], cmps := [], bools := [], raises := [], calls := ["__init__", "__init__"] }
def fp_bcif_BinaryCIFFile_block : Fp := { params := [], strs := [], ints := [1], cmps := ["NotEq"], bools := [], raises := ["ValueError"], calls := ["len", "next", "iter"] }
def fp_bcif_BinaryCIFFile_deserialize : Fp := { params := [("content", "<required>")], strs := ["dataBlocks", "header"], ints := [], cmps := [], bools := [], raises := [], calls := ["BinaryCIFFile", "_deserialize_elements"] }
def fp_bcif_BinaryCIFFile_read : Fp := { params := [("file", "<required>")], strs := ["rb"], ints := [], cmps := [], bools := ["Not"], raises := ["TypeError"], calls := ["is_open_compatible", "open", "deserialize", "unpackb", "read", "is_binary", "deserialize", "unpackb", "read"] }
def fp_bcif_BinaryCIFFile_serialize : Fp := { params := [], strs := ["dataBlocks", "header"], ints := [], cmps := [], bools := [], raises := [], calls := ["_serialize_elements"] }
def fp_bcif_BinaryCIFFile_write : Fp := { params := [("file", "<required>")], strs := ["encoder", "biotite", "version", "0.3.0", "wb"], ints := [], cmps := [], bools := ["Not"], raises := ["TypeError"], calls := ["serialize", "packb", "is_open_compatible", "open", "write", "is_binary", "write"] }
def fp_cif_CIFBlockU_containsU : Fp := { params := [("key", "<required>")], strs := [], ints := [], cmps := ["In"], bools := [], raises := [], calls := [] }
def fp_cif_CIFBlockU_delitemU : Fp := { params := [("key", "<required>")], strs := [], ints := [], cmps := [], bools := [], raises := [], calls := [] }
def fp_cif_CIFBlockU_eqU : Fp := { params := [("other", "<required>")], strs := [], ints := [], cmps := ["NotEq", "NotEq"], bools := ["Not"], raises := [], calls := ["isinstance", "type", "set", "keys", "set", "keys", "keys"] }
def fp_cif_CIFBlockU_getitemU : Fp := { params := [("key", "<required>")], strs := [], ints := [], cmps := [], bools := [], raises := ["DeserializationError"], calls := ["isinstance", "deserialize"] }
def fp_cif_CIFBlockU_initU : Fp := { params := [("categories", "None"), ("name", "None")], strs := [], ints := [], cmps := ["Is"], bools := [], raises := [], calls := [] }
def fp_cif_CIFBlockU_iterU : Fp := { params := [], strs := [], ints := [], cmps := [], bools := [], raises := [], calls := ["iter"] }
def fp_cif_CIFBlockU_lenU : Fp := { params := [], strs := [], ints := [], cmps := [], bools := [], raises := [], calls := ["len"] }
def fp_cif_CIFBlockU_setitemU : Fp := { params := [("key", "<required>"), ("category", "<required>")], strs := [], ints := [], cmps := [], bools := ["Not"], raises := ["TypeError"], calls := ["isinstance"] }
def fp_cif_CIFBlock_deserialize : Fp := { params := [("text", "<required>")], strs := [], ints := [1], cmps := ["NotEq", "IsNot"], bools := ["Not", "Or", "And"], raises := [], calls := ["splitlines", "enumerate", "_is_empty", "_is_loop_start", "_parse_category_name", "_parse_category_name", "append", "append", "CIFBlock", "_create_element_dict"] }
def fp_cif_CIFBlock_serialize : Fp := { params := [], strs := ["data_", "\n#\n", "#\n", ""], ints := [], cmps := ["Is", "NotIn"], bools := [], raises := ["SerializationError", "SerializationError", "SerializationError"], calls := ["splitlines", "items", "isinstance", "append", "append", "serialize", "append", "join"] }
def fp_cif_CIFCategoryU_containsU : Fp := { params := [("key", "<required>")], strs := [], ints := [], cmps := ["In"], bools := [], raises := [], calls := [] }
def fp_cif_CIFCategoryU_delitemU : Fp := { params := [("key", "<required>")], strs := [], ints := [1], cmps := ["Eq"], bools := [], raises := ["ValueError"], calls := ["len"] }
def fp_cif_CIFCategoryU_eqU : Fp := { params := [("other", "<required>")], strs := [], ints := [], cmps := ["NotEq", "NotEq"], bools := ["Not"], raises := [], calls := ["isinstance", "type", "set", "keys", "set", "keys", "keys"] }
def fp_cif_CIFCategoryU_getitemU : Fp := { params := [("key", "<required>")], strs := [], ints := [], cmps := [], bools := [], raises := [], calls := [] }
def fp_cif_CIFCategoryU_initU : Fp := { params := [("columns", "None"), ("name", "None")], strs := [], ints := [], cmps := ["Is"], bools := ["Not"], raises := [], calls := ["isinstance", "CIFColumn", "items"] }
def fp_cif_CIFCategoryU_iterU : Fp := { params := [], strs := [], ints := [], cmps := [], bools := [], raises := [], calls := ["iter"] }
def fp_cif_CIFCategoryU_lenU : Fp := { params := [], strs := [], ints := [], cmps := [], bools := [], raises := [], calls := ["len"] }
def fp_cif_CIFCategoryU_setitemU : Fp := { params := [("key", "<required>"), ("column", "<required>")], strs := [], ints := [], cmps := [], bools := ["Not"], raises := [], calls := ["isinstance", "CIFColumn"] }
def fp_cif_CIFCategoryUdeserialize_looped : Fp := { params := [("p0", "<required>")], strs := ["_", "."], ints := [0, 0, 1, 1, 0], cmps := ["Eq", "NotEq"], bools := [], raises := ["DeserializationError"], calls := ["split", "append", "cycle", "range", "len", "_split_one_line", "next", "append", "next"] }
def fp_cif_CIFCategoryUdeserialize_single : Fp := { params := [("p0", "<required>")], strs := ["."], ints := [0, 2, 1, 1, 0, 1, 1, 0, 2, 0, 1], cmps := ["Lt", "Eq", "Eq", "Eq", "Eq"], bools := [], raises := ["DeserializationError", "DeserializationError", "DeserializationError"], calls := ["len", "list", "_split_one_line", "len", "len", "list", "_split_one_line", "len", "len", "split", "CIFColumn"] }
def fp_cif_CIFCategoryUserialize_looped : Fp := { params := [], strs := ["_", ".", " ", "", "loop_"], ints := [1], cmps := [], bools := [], raises := [], calls := ["keys", "values", "as_array", "array", "_escape", "append", "range", "enumerate", "ljust", "strip"] }
def fp_cif_CIFCategoryUserialize_single : Fp := { params := [], strs := ["_", "."], ints := [3], cmps := [], bools := [], raises := [], calls := ["keys", "max", "len", "strip", "ljust", "_escape", "as_item", "zip", "values"] }
def fp_cif_CIFCategory_deserialize : Fp := { params := [("text", "<required>")], strs := [], ints := [0, 0, 0], cmps := ["Is"], bools := ["Not"], raises := ["DeserializationError"], calls := ["strip", "splitlines", "_is_empty", "_is_loop_start", "pop", "_parse_category_name", "_to_single", "_deserialize_looped", "_deserialize_single", "CIFCategory"] }
def fp_cif_CIFCategory_row_count : Fp := { params := [], strs := [], ints := [], cmps := ["Is"], bools := [], raises := [], calls := ["len", "next", "iter", "values"] }
def fp_cif_CIFCategory_serialize : Fp := { params := [], strs := [".", "", "\n"], ints := [0, 1], cmps := ["Is", "In", "Is", "NotEq", "Eq", "Eq"], bools := ["Not", "Or"], raises := ["SerializationError", "ValueError", "SerializationError", "SerializationError", "ValueError"], calls := ["keys", "any", "isspace", "items", "len", "len", "_serialize_single", "_serialize_looped", "append", "join"] }
def fp_cif_CIFColumnU_eqU : Fp := { params := [("other", "<required>")], strs := [], ints := [], cmps := ["NotEq", "NotEq"], bools := ["Not"], raises := [], calls := ["isinstance", "type"] }
def fp_cif_CIFColumnU_initU : Fp := { params := [("data", "<required>"), ("mask", "None")], strs := [".", "?"], ints := [], cmps := ["Is", "Eq", "Eq", "Eq", "NotEq"], bools := ["Not", "Not"], raises := ["IndexError"], calls := ["isinstance", "CIFData", "full", "len", "all", "CIFData", "isinstance", "CIFData", "len", "len"] }
def fp_cif_CIFColumn_as_array : Fp := { params := [("dtype", "str"), ("masked_value", "None")], strs := [".3f", ".", "?", "U"], ints := [4], cmps := ["Is", "Is", "Eq", "Eq", "Lt", "Eq", "Eq", "Is", "Eq"], bools := [], raises := [], calls := ["astype", "issubdtype", "issubdtype", "array", "astype", "str", "len", "astype", "len", "zeros", "len", "full", "len", "astype"] }
def fp_cif_CIFColumn_as_item : Fp := { params := [], strs := [".3f", ".", "?"], ints := [], cmps := ["Is", "Is", "Eq", "Eq", "Eq"], bools := ["Or"], raises := [], calls := ["item", "item", "item", "isinstance", "str"] }
def fp_cif_CIFDataU_eqU : Fp := { params := [("other", "<required>")], strs := [], ints := [], cmps := [], bools := ["Not"], raises := [], calls := ["isinstance", "type", "array_equal"] }
def fp_cif_CIFDataU_initU : Fp := { params := [("array", "<required>"), ("dtype", "None")], strs := [], ints := [], cmps := ["IsNot"], bools := [], raises := ["ValueError"], calls := ["_arrayfy", "issubdtype", "astype"] }
def fp_cif_CIFFileU_containsU : Fp := { params := [("key", "<required>")], strs := [], ints := [], cmps := ["In"], bools := [], raises := [], calls := [] }
def fp_cif_CIFFileU_copy_fillU : Fp := { params := [("clone", "<required>")], strs := [], ints := [], cmps := [], bools := [], raises := [], calls := ["__copy_fill__", "super", "deepcopy"] }
def fp_cif_CIFFileU_delitemU : Fp := { params := [("key", "<required>")], strs := [], ints := [], cmps := [], bools := [], raises := [], calls := [] }
def fp_cif_CIFFileU_eqU : Fp := { params := [("other", "<required>")], strs := [], ints := [], cmps := ["NotEq", "NotEq"], bools := ["Not"], raises := [], calls := ["isinstance", "type", "set", "keys", "set", "keys", "keys"] }
def fp_cif_CIFFileU_getitemU : Fp := { params := [("key", "<required>")], strs := [], ints := [], cmps := [], bools := [], raises := ["DeserializationError"], calls := ["isinstance", "deserialize"] }
def fp_cif_CIFFileU_initU : Fp := { params := [("blocks", "None")], strs := [], ints := [], cmps := ["Is"], bools := [], raises := [], calls := [] }
def fp_cif_CIFFileU_iterU : Fp := { params := [], strs := [], ints := [], cmps := [], bools := [], raises := [], calls := ["iter"] }
def fp_cif_CIFFileU_lenU : Fp := { params := [], strs := [], ints := [], cmps := [], bools := [], raises := [], calls := ["len"] }
def fp_cif_CIFFileU_setitemU : Fp := { params := [("key", "<required>"), ("block", "<required>")], strs := [], ints := [], cmps := [], bools := ["Not"], raises := ["TypeError"], calls := ["isinstance"] }
def fp_cif_CIFFile_block : Fp := { params := [], strs := [], ints := [1], cmps := ["NotEq"], bools := [], raises := ["ValueError"], calls := ["len", "next", "iter"] }
def fp_cif_CIFFile_deserialize : Fp := { params := [("text", "<required>")], strs := [], ints := [], cmps := ["IsNot"], bools := ["Not"], raises := [], calls := ["splitlines", "enumerate", "_is_empty", "_parse_data_block_name", "append", "append", "CIFFile", "_create_element_dict"] }
def fp_cif_CIFFile_lines : Fp := { params := [], strs := [], ints := [], cmps := [], bools := [], raises := [], calls := ["splitlines", "serialize"] }
def fp_cif_CIFFile_read : Fp := { params := [("file", "<required>")], strs := ["r"], ints := [], cmps := [], bools := ["Not"], raises := ["TypeError"], calls := ["is_open_compatible", "open", "read", "is_text", "read", "deserialize"] }
def fp_cif_CIFFile_serialize : Fp := { params := [], strs := ["", ""], ints := [], cmps := [], bools := [], raises := ["SerializationError"], calls := ["items", "isinstance", "append", "append", "serialize", "append", "join"] }
def fp_cif_CIFFile_write : Fp := { params := [("file", "<required>")], strs := ["w"], ints := [], cmps := [], bools := ["Not"], raises := ["TypeError"], calls := ["is_open_compatible", "open", "write", "serialize", "is_text", "write", "serialize"] }
def fp_cif_UNICODE_CHAR_SIZE : Fp := { params := [], strs := [], ints := [4], cmps := [], bools := [], raises := [], calls := [] }
def fp_cifUarrayfy : Fp := { params := [("p0", "<required>")], strs := [], ints := [0], cmps := ["Eq"], bools := ["Or", "Not"], raises := ["ValueError"], calls := ["isinstance", "isinstance", "len", "asarray"] }
def fp_cifUcreate_element_dict : Fp := { params := [("p0", "<required>"), ("p1", "<required>"), ("p2", "<required>")], strs := ["\n", "\n"], ints := [1], cmps := [], bools := [], raises := [], calls := ["append", "len", "join", "enumerate"] }
def fp_cifUescape : Fp := { params := [("p0", "<required>")], strs := ["\n", "'", "\"", "''", "'", "\"", "\"", "\"", "'", "'", "_", "'", "'", " ", "'", "'", "\t", "'", "'", "'", "'", "#", ";", "data_", "loop_", "'", "'"], ints := [0, 0, 0], cmps := ["In", "In", "In", "Eq", "In", "In", "Eq", "In", "In", "In"], bools := ["And", "Or"], raises := [], calls := ["_multiline", "_multiline", "len", "any", "isspace", "startswith"] }
def fp_cifUis_empty : Fp := { params := [("p0", "<required>")], strs := ["#"], ints := [0, 0], cmps := ["Eq", "Eq"], bools := ["Or"], raises := [], calls := ["len", "strip"] }
def fp_cifUis_loop_start : Fp := { params := [("p0", "<required>")], strs := ["loop_"], ints := [], cmps := [], bools := [], raises := [], calls := ["startswith"] }
def fp_cifUmultiline : Fp := { params := [("p0", "<required>")], strs := ["\n;", "\n;\n"], ints := [], cmps := [], bools := [], raises := [], calls := [] }
def fp_cifUparse_category_name : Fp := { params := [("p0", "<required>")], strs := ["_", "."], ints := [0, 1], cmps := ["NotEq"], bools := [], raises := [], calls := ["find"] }
def fp_cifUparse_data_block_name : Fp := { params := [("p0", "<required>")], strs := ["data_"], ints := [5], cmps := [], bools := [], raises := [], calls := ["startswith"] }
def fp_cifUsplit_one_line : Fp := { params := [("p0", "<required>")], strs := [";", "'", "\"", " ", "'", "\""], ints := [0, 1, 0, 1, 1, 1, 1], cmps := ["Eq", "In", "In", "Gt"], bools := ["Or", "And"], raises := [], calls := ["lstrip", "partition", "startswith", "endswith", "len", "partition", "split"] }
def fp_cifUto_single : Fp := { params := [("p0", "<required>")], strs := [";", "\n"], ints := [0], cmps := ["Eq"], bools := ["Not"], raises := [], calls := ["append", "append", "join", "append", "append"] }
def fp_component_MaskValue : Fp := { params := [], strs := ["PRESENT", "INAPPLICABLE", "MISSING"], ints := [0, 1, 2], cmps := [], bools := [], raises := [], calls := [] }
def fp_componentUHierarchicalContainerU_containsU : Fp := { params := [("key", "<required>")], strs := [], ints := [], cmps := ["In"], bools := [], raises := [], calls := [] }
def fp_componentUHierarchicalContainerU_delitemU : Fp := { params := [("key", "<required>")], strs := [], ints := [], cmps := [], bools := [], raises := [], calls := [] }
def fp_componentUHierarchicalContainerU_eqU : Fp := { params := [("other", "<required>")], strs := [], ints := [], cmps := ["NotEq", "NotEq"], bools := ["Not"], raises := [], calls := ["isinstance", "type", "set", "keys", "set", "keys", "keys"] }
def fp_componentUHierarchicalContainerU_getitemU : Fp := { params := [("key", "<required>")], strs := [], ints := [], cmps := [], bools := ["Not"], raises := ["DeserializationError"], calls := ["isinstance", "subcomponent_class", "deserialize", "subcomponent_class"] }
def fp_componentUHierarchicalContainerU_initU : Fp := { params := [("elements", "None")], strs := [], ints := [], cmps := ["Is"], bools := ["Not"], raises := ["TypeError"], calls := ["values", "isinstance", "subcomponent_class"] }
def fp_componentUHierarchicalContainerU_iterU : Fp := { params := [], strs := [], ints := [], cmps := [], bools := [], raises := [], calls := ["iter"] }
def fp_componentUHierarchicalContainerU_lenU : Fp := { params := [], strs := [], ints := [], cmps := [], bools := [], raises := [], calls := ["len"] }
def fp_componentUHierarchicalContainerU_setitemU : Fp := { params := [("key", "<required>"), ("element", "<required>")], strs := [], ints := [], cmps := [], bools := [], raises := ["TypeError", "DeserializationError"], calls := ["isinstance", "subcomponent_class", "isinstance", "deserialize", "subcomponent_class"] }
def fp_componentUHierarchicalContainerUdeserialize_elements : Fp := { params := [("p0", "<required>"), ("p1", "<required>")], strs := [], ints := [], cmps := [], bools := [], raises := [], calls := [] }
def fp_componentUHierarchicalContainerUserialize_elements : Fp := { params := [("p0", "None")], strs := [], ints := [], cmps := ["IsNot"], bools := [], raises := ["SerializationError"], calls := ["items", "isinstance", "subcomponent_class", "serialize", "append"] }
def binaryPrefixes : List String := ["_", "_", "_", "_", "_"]
def binaryStrip : List (List String) := [["removeprefix", "_"], ["removeprefix", "_"]]
def blockHeaderParts : List String := ["data_", "\n#\n"]
def blockJoin : String := ""
def catNameFirst : String := "_"
def catNameIndex : Nat := 0
def catNameSep : String := "."
def catNameSliceStart : Nat := 1
def catTrailer : String := "#\n"
def categoryChecksInts : List Nat := [0, 1]
def categoryLineEnd : List String := [".", "", "\n"]
def categoryRaises : List String := ["SerializationError", "ValueError", "SerializationError", "SerializationError", "ValueError"]
def commentChar : String := "#"
def dataPrefix : String := "data_"
def dataSlice : Nat := 5
def elementJoin : List String := ["\n", "\n"]
def fileJoin : List String := ["", ""]
def joinSep : String := "\n"
def keyPartsLooped : List String := ["_", ".", " "]
def keyPartsSingle : List String := ["_", "."]
def loopHeader : String := "loop_"
def loopPrefix : String := "loop_"
def loopedLineInit : String := ""
def loopedPad : Nat := 1
def maskInferPairs : List (List String) := [[".", "INAPPLICABLE"], ["?", "MISSING"]]
def maskInferStrs : List String := [".", "?"]
def maskNames : List String := ["PRESENT", "INAPPLICABLE", "MISSING"]
def maskRenderPairs : List (List String) := [["INAPPLICABLE", "."], ["MISSING", "?"]]
def maskRenderStrs : List String := [".3f", ".", "?", "U"]
def maskValues : List Nat := [0, 1, 2]
def partitionSep : String := " "
def quotedMinLen : Nat := 1
def rowCountResets : List String := ["CIFCategory.__init__", "CIFCategory.__setitem__", "CIFCategory.__delitem__", "BinaryCIFCategory.__setitem__", "BinaryCIFCategory.__delitem__"]
def semiChar : String := ";"
def singlePad : Nat := 3
def splitQ1 : String := "'"
def splitQ1a : String := "'"
def splitQ2 : String := "\""
def splitQ2a : String := "\""
def splitSemi : String := ";"
def unicodeCharSize : Nat := 4
end BiotiteModel.Gen.C06

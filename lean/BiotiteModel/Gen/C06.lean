/- REGENERATED on every run by harness/props/c06.py from structure/io/pdbx/cif.py (Python ast). Do not edit. -/
import BiotiteModel.Model.C06
namespace BiotiteModel.Gen.C06
open BiotiteModel.C06
/-- The if/elif chain of `_escape`: (test, returned expression), in source order. -/
def escapeBranches : List (Cond × Act) := [
  ((.hasChar '\n'), .multiline),
  ((.and (.hasChar '\'') (.hasChar '"')), .multiline),
  (.isEmpty, (.literal "''")),
  ((.hasChar '\''), (.quote '"')),
  ((.hasChar '"'), (.quote '\'')),
  ((.firstIs '_'), (.quote '\'')),
  ((.hasChar ' '), (.quote '\'')),
  ((.hasChar '\t'), (.quote '\'')),
  ((.or (.firstIn ['#', ';']) (.startsWithAny ["data_", "loop_"])), (.quote '\''))
]
/-- The final `else` of `_escape`. -/
def escapeDefault : Act := .asIs
/-- `_multiline`: prefix and suffix around the value. -/
def multilinePrefix : String := "\n;"
def multilineSuffix : String := "\n;\n"
/-- Every test of a first character / prefix that the reader functions of cif.py perform: (function, test). -/
def readerHeadTests : List (String × Cond) := [
  ("_is_empty", (.firstIs '#')),
  ("_parse_data_block_name", (.startsWith "data_")),
  ("_parse_category_name", (.firstIs '_')),
  ("_is_loop_start", (.startsWith "loop_")),
  ("_to_single", (.firstIs ';')),
  ("_split_one_line", (.firstIs ';')),
  ("_split_one_line", (.firstIn ['\'', '"'])),
  ("_deserialize_looped", (.firstIs '_'))
]
end BiotiteModel.Gen.C06

/- REGENERATED on every run by harness/props/c06.py from structure/io/pdbx/cif.py (Python ast). Do not edit. -/
import BiotiteModel.Model.C06
namespace BiotiteModel.Gen.C06
open BiotiteModel.C06
/-- The if/elif chain of `_escape`: (test, returned expression), in source order. -/
def escapeBranches : List (Cond × Act) := [
  ((.hasChar '\n'), .multiline),
  ((.and (.hasChar q1) (.hasChar q2)), .multiline),
  (.isEmpty, (.literal "''")),
  ((.hasChar q1), (.quote q2)),
  ((.hasChar q2), (.quote q1)),
  ((.firstIs '_'), (.quote q1)),
  ((.hasChar ' '), (.quote q1)),
  ((.hasChar '\t'), (.quote q1)),
  (.hasWs, (.quote q1)),
  ((.or (.firstIn ['#', ';']) (.startsWithAny ["data_", "loop_"])), (.quote q1))
]
/-- The final `else` of `_escape`. -/
def escapeDefault : Act := .asIs
/-- `_multiline`: prefix and suffix around the value. -/
def multilinePrefix : String := "\n;"
def multilineSuffix : String := "\n;\n"
/-- Every test of a first character / prefix that the reader functions of cif.py perform: (function, test). -/
def readerHeadTests : List (String × Cond) := [
  ("_is_empty", (.firstIs '#')),
  ("_parse_data_block_name", (.startsWith "data_")),
  ("_parse_category_name", (.firstIs '_')),
  ("_is_loop_start", (.startsWith "loop_")),
  ("_to_single", (.firstIs ';')),
  ("_split_one_line", (.firstIs ';')),
  ("_split_one_line", (.firstIn [q1, q2])),
  ("_deserialize_looped", (.firstIs '_'))
]
end BiotiteModel.Gen.C06

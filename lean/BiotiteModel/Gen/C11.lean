/- REGENERATED on every run by harness/props/c11.py from sequence/align/cigar.py. Do not edit. -/
namespace BiotiteModel.Gen.C11
/-- `CigarOp` members: (name, BAM code). -/
def cigarOps : List (String × Nat) := [("MATCH", 0), ("INSERTION", 1), ("DELETION", 2), ("INTRON", 3), ("SOFT_CLIP", 4), ("HARD_CLIP", 5), ("PADDING", 6), ("EQUAL", 7), ("DIFFERENT", 8), ("BACK", 9)]
/-- `_str_to_op`: (symbol, member name). -/
def strToOp : List (Char × String) := [('M', "MATCH"), ('I', "INSERTION"), ('D', "DELETION"), ('N', "INTRON"), ('S', "SOFT_CLIP"), ('H', "HARD_CLIP"), ('P', "PADDING"), ('=', "EQUAL"), ('X', "DIFFERENT"), ('B', "BACK")]
/-- branches of `read_alignment_from_cigar`: (member, reference advances, segment advances, clipped away,
reference entry is a gap, segment entry is a gap).  Members not listed raise ValueError. -/
def readerTable : List (String × Bool × Bool × Bool × Bool × Bool) := [("MATCH", true, true, false, false, false), ("EQUAL", true, true, false, false, false), ("DIFFERENT", true, true, false, false, false), ("INSERTION", false, true, false, true, false), ("DELETION", true, false, false, false, true), ("INTRON", true, false, false, false, true), ("SOFT_CLIP", false, true, true, false, false), ("HARD_CLIP", false, false, true, false, false)]
/-- `operations[<mask>] = CigarOp.X` assignments of `write_alignment_to_cigar` (and the `np.full` default). -/
def writerTable : List (String × String) := [("default", "MATCH"), ("insertion_mask", "INSERTION"), ("deletion_mask", "DELETION"), ("intron_mask", "INTRON"), ("equal_mask & match_mask", "EQUAL"), ("~equal_mask & match_mask", "DIFFERENT")]
/-- `clip_op = A if <test> else B` -/
def clipOp : String × String × String := ("hard_clip", "HARD_CLIP", "SOFT_CLIP")
end BiotiteModel.Gen.C11

/- REGENERATED on every run by harness/props/c11.py from sequence/align/cigar.py. Do not edit. -/
namespace BiotiteModel.Gen.C11
/-- `CigarOp` members: (name, BAM code). -/
def cigarOps : List (String × Nat) := [("MATCH", 0), ("INSERTION", 1), ("DELETION", 2), ("INTRON", 3), ("SOFT_CLIP", 4), ("HARD_CLIP", 5), ("PADDING", 6), ("EQUAL", 7), ("DIFFERENT", 8), ("BACK", 9)]
/-- `_str_to_op`: (symbol, member name). -/
def strToOp : List (Char × String) := [('M', "MATCH"), ('I', "INSERTION"), ('D', "DELETION"), ('N', "INTRON"), ('S', "SOFT_CLIP"), ('H', "HARD_CLIP"), ('P', "PADDING"), ('=', "EQUAL"), ('X', "DIFFERENT"), ('B', "BACK")]
/-- branches of `read_alignment_from_cigar`: (member, reference advances, segment advances, clipped away,
reference entry is a gap, segment entry is a gap).  Members not listed raise ValueError. -/
def readerTable : List (String × Bool × Bool × Bool × Bool × Bool) := [("MATCH", true, true, false, false, false), ("EQUAL", true, true, false, false, false), ("DIFFERENT", true, true, false, false, false), ("INSERTION", false, true, false, true, false), ("DELETION", true, false, false, false, true), ("INTRON", true, false, false, false, true), ("SOFT_CLIP", false, true, true, false, false), ("HARD_CLIP", false, false, true, false, false)]
/-- `operations[<mask>] = CigarOp.X` assignments of `write_alignment_to_cigar` (and the `np.full` default). -/
def writerTable : List (String × String) := [("default", "MATCH"), ("mask1", "INSERTION"), ("mask2", "DELETION"), ("mask3", "INTRON"), ("mask4", "EQUAL"), ("mask5", "DIFFERENT")]
/-- `clip_op = A if <test> else B` -/
def clipOp : String × String × String := ("hard_clip", "HARD_CLIP", "SOFT_CLIP")
/-- default arguments of `write_alignment_to_cigar` -/
def writerDefaults : List (String × String) := [("reference_index", "0"), ("segment_index", "1"), ("introns", "()"), ("distinguish_matches", "False"), ("hard_clip", "False"), ("include_terminal_gaps", "False"), ("as_string", "True")]
def readerDefaults : List (String × String) := []
/-- the refusing guards of `write_alignment_to_cigar` in source order: (kind/operator, constant, exception) -/
def writerGuards : List (String × String × String) := [("mask-and", "", "ValueError"), ("diff-not", "1", "ValueError"), ("GtE", "var", "ValueError"), ("Lt", "0", "ValueError"), ("mask-and-not", "", "ValueError")]
def readerRaises : List String := ["ValueError"]
/-- `start_clip = seg_trace[startClipIndex]`, `end_clip = len(segment) - seg_trace[endClipIndex] - endClipMinus` -/
def startClipIndex : Int := 0
def endClipIndex : Int := -1
def endClipMinus : Int := 1
/-- `alignment[pos[trimLower] : pos[trimUpper] + trimPlus]` -/
def trimLower : Int := 0
def trimUpper : Int := -1
def trimPlus : Int := 1
/-- the printer appends `str(count)` first, then the symbol -/
def printerCountFirst : Bool := true
def readerInit : List (String × String) := [("refCursor", "position"), ("segCursor", "0"), ("row", "0")]
/-- literals, guards, defaults, step order and exception classes read from alignment.py, fasta/convert.py (ast) and
multiple.pyx (text) -/
def facts : List (String × String) := [("gapped.gapChar", "-"), ("gapped.test", "gap iff index == -1"), ("trace_from_strings.guard", "Lt 2 ValueError"), ("trace_from_strings.gapTest", "Eq '-'"), ("trace_from_strings.increment", "1"), ("get_codes.dtype", "np.int64"), ("get_codes.gapFill", "np.int64(-1)"), ("get_symbols.alphabet", "alignment.sequences[k].get_alphabet()|per-row"), ("get_sequence_identity.defaults", "mode='not_terminal'"), ("get_sequence_identity.modes", "'all','not_terminal','shortest'"), ("get_sequence_identity.guards", "stop LtE start ValueError"), ("get_sequence_identity.raises", "ValueError"), ("get_pairwise_sequence_identity.defaults", "mode='not_terminal'"), ("get_pairwise_sequence_identity.modes", "'all','not_terminal','shortest'"), ("get_pairwise_sequence_identity.guards", "stop LtE start ValueError"), ("get_pairwise_sequence_identity.raises", "ValueError"), ("get_sequence_identity.match", "one symbol in the column and not -1"), ("score.defaults", "gap_penalty=-10;terminal_penalty=True"), ("score.lookup", "matrix[earlier,later]"), ("score.pairs", "every unordered pair once (earlier < later)"), ("score.raises", "TypeError"), ("score.gapOrder", "ext,open"), ("find_terminal_gaps.start", "max(pos[0] if len Gt 0 else ncols)+0"), ("find_terminal_gaps.stop", "min(pos[-1] if len Gt 0 else -1)+1"), ("remove_terminal_gaps.guard", "stop Lt start ValueError"), ("remove_gaps.mask", "columns without any -1"), ("getitem.raises", "IndexError"), ("getitem.integerTest", "numbers.Integral in the 1-D and the 2-D branch"), ("get_alignment.defaults", "additional_gap_chars=('_',);seq_type=None"), ("get_alignment.replace", "'-','';char,'-'"), ("get_alignment.loops", "every additional gap character is replaced in the current text"), ("set_alignment.guard", "len(rows) NotEq len(seq_names) ValueError"), ("align_multiple.defaults", "gap_penalty=-10;terminal_penalty=True;distances=None;guide_tree=None"), ("align_multiple.reorder", "np.argsort(order)"), ("align_multiple.pick", "[aligned_seqs[pos] for pos in new_order]"), ("align_multiple.traceReorder", "trace[:,new_order]"), ("align_multiple.gapCode", "new_alphabet.encode(gap_symbol)"), ("align_multiple.gapTest", "== -1"), ("align_multiple.strip", "code[code!=gap_symbol_code]"), ("progressive.leaf", "[sequences[tree_node.index].copy()]"), ("progressive.traceColumns", "aligned_seqs1:0;aligned_seqs2:1"), ("progressive.concat", "np.append(incides1,incides2);aligned_seqs1+aligned_seqs2"), ("progressive.children", "child1,child2=tree_node.children"), ("replace_gaps.branches", "== -1 gap_symbol_code seq_code[index]"), ("distance.scoreMax", "(scores_v[i,i]+scores_v[j,j])/2.0"), ("distance.guard", "scores_v[i,j] < score_rand ValueError"), ("distance.formula", "-log((scores_v[i,j]-score_rand)/(score_max-score_rand))"), ("distance.randDivisor", "alignments[i,j].trace.shape[0]"), ("distance.gapTerms", "gap_open_count*gap_open;gap_ext_count*gap_ext")]
end BiotiteModel.Gen.C11

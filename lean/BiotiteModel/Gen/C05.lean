/- REGENERATED on every run by harness/props/c05.py from structure/io/pdbx/encoding.pyx. Do not edit. -/
namespace BiotiteModel.Gen.C05
/-- `TypeCode` members: (name, code). -/
def typeCodes : List (String × Nat) := [("INT8", 1), ("INT16", 2), ("INT32", 3), ("UINT8", 4), ("UINT16", 5), ("UINT32", 6), ("FLOAT32", 32), ("FLOAT64", 33)]
/-- `_TYPE_CODE_TO_DTYPE`: (member name, numpy dtype string). -/
def typeCodeToDtype : List (String × String) := [("INT8", "|i1"), ("INT16", "<i2"), ("INT32", "<i4"), ("UINT8", "|u1"), ("UINT16", "<u2"), ("UINT32", "<u4"), ("FLOAT32", "<f4"), ("FLOAT64", "<f8")]
end BiotiteModel.Gen.C05

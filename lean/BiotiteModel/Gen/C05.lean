/- REGENERATED on every run by harness/props/c05.py from structure/io/pdbx/encoding.pyx. Do not edit. -/
namespace BiotiteModel.Gen.C05
/-- `TypeCode` members: (name, code). -/
def typeCodes : List (String × Nat) := [("INT8", 1), ("INT16", 2), ("INT32", 3), ("UINT8", 4), ("UINT16", 5), ("UINT32", 6), ("FLOAT32", 32), ("FLOAT64", 33)]
/-- `_TYPE_CODE_TO_DTYPE`: (member name, numpy dtype string). -/
def typeCodeToDtype : List (String × String) := [("INT8", "|i1"), ("INT16", "<i2"), ("INT32", "<i4"), ("UINT8", "|u1"), ("UINT16", "<u2"), ("UINT32", "<u4"), ("FLOAT32", "<f4"), ("FLOAT64", "<f8")]
/-- parameter names each encoding class declares (`__annotations__`, in order) — what `Encoding.serialize` writes. -/
def encodingParams : List (String × List String) := [("ByteArrayEncoding", ["type"]), ("FixedPointEncoding", ["factor", "src_type"]), ("IntervalQuantizationEncoding", ["min", "max", "num_steps", "src_type"]), ("RunLengthEncoding", ["src_size", "src_type"]), ("DeltaEncoding", ["src_type", "origin"]), ("IntegerPackingEncoding", ["byte_count", "src_size", "is_unsigned"]), ("StringArrayEncoding", ["strings", "data_encoding", "offset_encoding"])]
/-- `_encoding_classes_kinds`: class name → kind. -/
def encodingKinds : List (String × String) := [("ByteArrayEncoding", "ByteArray"), ("FixedPointEncoding", "FixedPoint"), ("IntervalQuantizationEncoding", "IntervalQuantization"), ("RunLengthEncoding", "RunLength"), ("DeltaEncoding", "Delta"), ("IntegerPackingEncoding", "IntegerPacking"), ("StringArrayEncoding", "StringArray")]
/-- `_encoding_classes`: kind → class name. -/
def encodingClasses : List (String × String) := [("ByteArray", "ByteArrayEncoding"), ("FixedPoint", "FixedPointEncoding"), ("IntervalQuantization", "IntervalQuantizationEncoding"), ("RunLength", "RunLengthEncoding"), ("Delta", "DeltaEncoding"), ("IntegerPacking", "IntegerPackingEncoding"), ("StringArray", "StringArrayEncoding")]
/-- keys `StringArrayEncoding.serialize` writes / `StringArrayEncoding.deserialize` reads (it does not use the name maps). -/
def stringArrayWritten : List String := ["kind", "dataEncoding", "stringData", "offsets", "offsetEncoding"]
def stringArrayRead : List String := ["dataEncoding", "offsetEncoding", "offsets", "stringData"]
/-- `_find_best_integer_compression`: the three loop domains, the encoding classes in the order a chain is extended, and the
`later = earlier + [encoding]` steps (regenerated from compress.py with `ast`). -/
def deltaDomain : List Bool := [false, true]
def rleDomain : List Bool := [false, true]
def packDomain : List (Option Nat) := [none, some 1, some 2]
def stageOrder : List String := ["DeltaEncoding", "RunLengthEncoding", "IntegerPackingEncoding", "ByteArrayEncoding"]
def chainExtends : List (String × String) := [("encodings_after_rle", "encodings_after_delta"), ("encodings_after_packing", "encodings_after_rle"), ("encodings", "encodings_after_packing")]
/-- `_to_smallest_integer_type`: the unsigned and the signed type ladder, in the order tried. -/
def unsignedLadder : List String := ["u8", "u16", "u32", "u64"]
def signedLadder : List String := ["i8", "i16", "i32", "i64"]
/-- `_get_decimal_places`: `if decimals > N: return None`; `_compress_data`: `len(array) == N` takes the uncompressed path. -/
def maxDecimals : Int := 18
def singleValueLength : Nat := 1
end BiotiteModel.Gen.C05

/- REGENERATED on every run by harness/props/c05.py from structure/io/pdbx/encoding.pyx. Do not edit. -/
namespace BiotiteModel.Gen.C05
/-- `TypeCode` members: (name, code). -/
def typeCodes : List (String × Nat) := [("INT8", 1), ("INT16", 2), ("INT32", 3), ("UINT8", 4), ("UINT16", 5), ("UINT32", 6), ("FLOAT32", 32), ("FLOAT64", 33)]
/-- `_TYPE_CODE_TO_DTYPE`: (member name, numpy dtype string). -/
def typeCodeToDtype : List (String × String) := [("INT8", "|i1"), ("INT16", "<i2"), ("INT32", "<i4"), ("UINT8", "|u1"), ("UINT16", "<u2"), ("UINT32", "<u4"), ("FLOAT32", "<f4"), ("FLOAT64", "<f8")]
/-- parameter names each encoding class declares (`__annotations__`, in order) — what `Encoding.serialize` writes. -/
def encodingParams : List (String × List String) := [("ByteArrayEncoding", ["type"]), ("FixedPointEncoding", ["factor", "src_type"]), ("IntervalQuantizationEncoding", ["min", "max", "num_steps", "src_type"]), ("RunLengthEncoding", ["src_size", "src_type"]), ("DeltaEncoding", ["src_type", "origin"]), ("IntegerPackingEncoding", ["byte_count", "src_size", "is_unsigned"]), ("StringArrayEncoding", ["strings", "data_encoding", "offset_encoding"])]
/-- `_encoding_classes_kinds`: class name → kind. -/
def encodingKinds : List (String × String) := [("ByteArrayEncoding", "ByteArray"), ("FixedPointEncoding", "FixedPoint"), ("IntervalQuantizationEncoding", "IntervalQuantization"), ("RunLengthEncoding", "RunLength"), ("DeltaEncoding", "Delta"), ("IntegerPackingEncoding", "IntegerPacking"), ("StringArrayEncoding", "StringArray")]
/-- `_encoding_classes`: kind → class name. -/
def encodingClasses : List (String × String) := [("ByteArray", "ByteArrayEncoding"), ("FixedPoint", "FixedPointEncoding"), ("IntervalQuantization", "IntervalQuantizationEncoding"), ("RunLength", "RunLengthEncoding"), ("Delta", "DeltaEncoding"), ("IntegerPacking", "IntegerPackingEncoding"), ("StringArray", "StringArrayEncoding")]
/-- keys `StringArrayEncoding.serialize` writes / `StringArrayEncoding.deserialize` reads (it does not use the name maps). -/
def stringArrayWritten : List String := ["kind", "dataEncoding", "stringData", "offsets", "offsetEncoding"]
def stringArrayRead : List String := ["dataEncoding", "offsetEncoding", "offsets", "stringData"]
/-- compress.py: `float_tolerance` parameter of every function that has one, with its default (`none` = no default). -/
def toleranceDefaults : List (String × Option String) := [("compress", some "1e-06"), ("_compress_file", none), ("_compress_block", none), ("_compress_category", none), ("_compress_column", none), ("_compress_data", none)]
/-- `TypeCode.from_dtype`: dtype substitutions (given, stored as). -/
def dtypeSubstitutions : List (String × String) := [("int64", "int32"), ("uint64", "uint32"), ("float16", "float32"), ("float128", "float64")]
/-- `IntegerPackingEncoding._determine_packed_dtype`: (byte count, unsigned dtype, signed dtype). -/
def packedDtypes : List (Nat × String × String) := [(1, "uint8", "int8"), (2, "uint16", "int16")]
/-- `create_uncompressed_encoding`: (numpy kind tested, encoding if it is that kind, encoding otherwise). -/
def uncompressedDefault : String × String × String := ("str_", "StringArrayEncoding", "ByteArrayEncoding")
/-- bcif.py: string keys used by serialize / deserialize / write of every component class. -/
def containerKeys : List (String × List String) := [("BinaryCIFBlock.deserialize", ["categories", "name"]), ("BinaryCIFBlock.serialize", ["categories", "name"]), ("BinaryCIFCategory.deserialize", ["columns", "name", "rowCount"]), ("BinaryCIFCategory.serialize", ["columns", "name", "rowCount"]), ("BinaryCIFColumn.deserialize", ["data", "mask"]), ("BinaryCIFColumn.serialize", ["data", "mask"]), ("BinaryCIFData.deserialize", ["data", "encoding"]), ("BinaryCIFData.serialize", ["data", "encoding"]), ("BinaryCIFFile.deserialize", ["dataBlocks", "header"]), ("BinaryCIFFile.serialize", ["dataBlocks", "header"]), ("BinaryCIFFile.write", ["biotite", "encoder", "version"])]
def blockPrefixAdded : Nat := 5
def blockPrefixStripped : Nat := 2
/-- `_find_best_integer_compression`: the three loop domains, the encoding classes in the order a chain is extended, and the
`later = earlier + [encoding]` steps (regenerated from compress.py with `ast`). -/
def deltaDomain : List Bool := [false, true]
def rleDomain : List Bool := [false, true]
def packDomain : List (Option Nat) := [none, some 1, some 2]
def stageOrder : List String := ["DeltaEncoding", "RunLengthEncoding", "IntegerPackingEncoding", "ByteArrayEncoding"]
def chainExtends : List (String × String) := [("v0", "v1"), ("v2", "v0"), ("v3", "v2")]
/-- `_to_smallest_integer_type`: the unsigned and the signed type ladder, in the order tried. -/
def unsignedLadder : List String := ["u8", "u16", "u32", "u64"]
def signedLadder : List String := ["i8", "i16", "i32", "i64"]
/-- `_get_decimal_places`: `if decimals > N: return None`; `_compress_data`: `len(array) == N` takes the uncompressed path. -/
def maxDecimals : Int := 18
def singleValueLength : Nat := 1
end BiotiteModel.Gen.C05

/- REGENERATED on every run by harness/props/c05.py from structure/io/pdbx/encoding.pyx. Do not edit. -/
namespace BiotiteModel.Gen.C05
/-- `TypeCode` members: (name, code). -/
def typeCodes : List (String × Nat) := [("INT8", 1), ("INT16", 2), ("INT32", 3), ("UINT8", 4), ("UINT16", 5), ("UINT32", 6), ("FLOAT32", 32), ("FLOAT64", 33)]
/-- `_TYPE_CODE_TO_DTYPE`: (member name, numpy dtype string). -/
def typeCodeToDtype : List (String × String) := [("INT8", "|i1"), ("INT16", "<i2"), ("INT32", "<i4"), ("UINT8", "|u1"), ("UINT16", "<u2"), ("UINT32", "<u4"), ("FLOAT32", "<f4"), ("FLOAT64", "<f8")]
/-- parameter names each encoding class declares (`__annotations__`, in order) — what `Encoding.serialize` writes. -/
def encodingParams : List (String × List String) := [("ByteArrayEncoding", ["type"]), ("FixedPointEncoding", ["factor", "src_type"]), ("IntervalQuantizationEncoding", ["min", "max", "num_steps", "src_type"]), ("RunLengthEncoding", ["src_size", "src_type"]), ("DeltaEncoding", ["src_type", "origin"]), ("IntegerPackingEncoding", ["byte_count", "src_size", "is_unsigned"]), ("StringArrayEncoding", ["strings", "data_encoding", "offset_encoding"])]
/-- `_encoding_classes_kinds`: class name → kind. -/
def encodingKinds : List (String × String) := [("ByteArrayEncoding", "ByteArray"), ("FixedPointEncoding", "FixedPoint"), ("IntervalQuantizationEncoding", "IntervalQuantization"), ("RunLengthEncoding", "RunLength"), ("DeltaEncoding", "Delta"), ("IntegerPackingEncoding", "IntegerPacking"), ("StringArrayEncoding", "StringArray")]
/-- `_encoding_classes`: kind → class name. -/
def encodingClasses : List (String × String) := [("ByteArray", "ByteArrayEncoding"), ("FixedPoint", "FixedPointEncoding"), ("IntervalQuantization", "IntervalQuantizationEncoding"), ("RunLength", "RunLengthEncoding"), ("Delta", "DeltaEncoding"), ("IntegerPacking", "IntegerPackingEncoding"), ("StringArray", "StringArrayEncoding")]
/-- keys `StringArrayEncoding.serialize` writes / `StringArrayEncoding.deserialize` reads (it does not use the name maps). -/
def stringArrayWritten : List String := ["kind", "dataEncoding", "stringData", "offsets", "offsetEncoding"]
def stringArrayRead : List String := ["dataEncoding", "offsetEncoding", "offsets", "stringData"]
end BiotiteModel.Gen.C05

/- REGENERATED on every run by harness/props/c14.py from structure/celllist.pyx and structure/box.py. Do not edit. -/
namespace BiotiteModel.Gen.C14
/-- per axis: window `range(i + lo.1*cell_r + lo.2, i + hi.1*cell_r + hi.2)`,
clip test `adj >= / > lowC` and `adj < / <= cells.shape[shapeAxis]`. -/
structure Axis where
  loSign : Int
  loConst : Int
  hiSign : Int
  hiConst : Int
  lowIsGe : Bool
  lowC : Int
  highIsLt : Bool
  shapeAxis : Nat
  deriving DecidableEq, Repr
def window : List Axis := [⟨-1, 0, 1, 1, true, 0, true, 0⟩, ⟨-1, 0, 1, 1, true, 0, true, 1⟩, ⟨-1, 0, 1, 1, true, 0, true, 2⟩]
/-- `_get_cell_index`: (output variable, coordinate variable, `_min_coord` axis). -/
def cellIndex : List (String × String × Nat) := [("i", "x", 0), ("j", "y", 1), ("k", "z", 2)]
/-- the comparison in `if sq_dist ? sq_radius` -/
def distCmp : String := "<="
/-- `cell_count = ((max-min)/cell_size + cellCountPlus).astype(int)` -/
def cellCountPlus : Int := 1
/-- `length = (a*max_cell_radius + b)**e * max_cell_length` -/
def bufLen : Nat × Nat × Nat := (2, 1, 3)
/-- default `amount` of `repeat_box_coord` (images per axis = 2*amount+1) -/
def repeatAmount : Nat := 1
end BiotiteModel.Gen.C14

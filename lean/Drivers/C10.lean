import BiotiteModel.Driver.C10
def main : IO Unit := BiotiteModel.Driver.C10.main

import BiotiteModel.Driver.C01
def main : IO Unit := BiotiteModel.Driver.C01.main

import BiotiteModel.Driver.C12
def main : IO Unit := BiotiteModel.Driver.C12.main

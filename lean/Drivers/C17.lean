import BiotiteModel.Driver.C17
def main : IO Unit := BiotiteModel.Driver.C17.main

import BiotiteModel.Driver.C04
def main : IO Unit := BiotiteModel.Driver.C04.main

import BiotiteModel.Driver.C02
def main : IO Unit := BiotiteModel.Driver.C02.main

import BiotiteModel.Driver.C05
def main : IO Unit := BiotiteModel.Driver.C05.main

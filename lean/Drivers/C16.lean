import BiotiteModel.Driver.C16
def main : IO Unit := BiotiteModel.Driver.C16.main

import BiotiteModel.Driver.C13
def main : IO Unit := BiotiteModel.Driver.C13.main

import BiotiteModel.Driver.C07
def main := BiotiteModel.Driver.C07.main

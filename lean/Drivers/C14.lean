import BiotiteModel.Driver.C14
def main : IO Unit := BiotiteModel.Driver.C14.main

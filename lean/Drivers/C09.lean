import BiotiteModel.Driver.C09
def main : IO Unit := BiotiteModel.Driver.C09.main

import BiotiteModel.Driver.C08
def main : IO Unit := BiotiteModel.Driver.C08.main

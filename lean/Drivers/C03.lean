import BiotiteModel.Driver.C03
def main : IO Unit := BiotiteModel.Driver.C03.main

import BiotiteModel.Driver.C19
def main : IO Unit := BiotiteModel.Driver.C19.main

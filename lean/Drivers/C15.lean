import BiotiteModel.Driver.C15
def main : IO Unit := BiotiteModel.Driver.C15.main

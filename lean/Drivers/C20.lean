import BiotiteModel.Driver.C20
def main : IO Unit := BiotiteModel.Driver.C20.main

import BiotiteModel.Driver.C11
def main : IO Unit := BiotiteModel.Driver.C11.main

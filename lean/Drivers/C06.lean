import BiotiteModel.Driver.C06
def main : IO Unit := BiotiteModel.Driver.C06.main

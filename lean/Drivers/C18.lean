import BiotiteModel.Driver.C18
def main : IO Unit := BiotiteModel.Driver.C18.main

-- Root of the `BiotiteModel` library: every property's theorems and driver (setup_cmd builds this).
import BiotiteModel.Common
import BiotiteModel.Props.C05
import BiotiteModel.Driver.C05
